"""C14 - loading a persistence file fails only with the persistence read error."""
from __future__ import annotations

import json as real_json

from harness.common import Reject, Violation, stub_repr
from harness.persistkit import PATH, compare_snapshots, load_into, snapshot, unwire, wire
from sx.fsmodel import FS

PROPERTY = "C14"
BOUNDS = {
    "quick": "(a) a valid 2-node document (native and legacy layout) with one JSON value substituted at one of 21 positions (document, node record, each of 9 node fields, children map, child key, child record, each of 4 child fields, values map, value key, value) by null / true / symbolic int in [-10^6,10^6] / symbolic string |s|<=1 (string-typed positions; an 8-text class list at numeric positions and for map keys) / [] / {} / [1] / {'a':1}, or one field dropped, or one unknown field added; through the structure-preserving json fake so that the substituted int/str stays symbolic; (b) every prefix of 3 valid files (cut position symbolic, realised by the JSON parser); (c) undecodable bytes (5 samples), missing file, empty file, OSError on open/read",
    "thorough": "as quick with two simultaneous substitutions",
}
REALISED = ["(b) the cut position is realised by json.loads (one path per prefix)"]
STUBS = ["persistence.aiofiles -> in-memory file system (sx/fsmodel.py)", "persistence.json -> structure-preserving fake in symbolic runs of (a); every witness is re-run with the real json on real JSON text"]
ASSUMPTIONS = ["JSON nesting deeper than the schema and duplicate keys are outside the claim", "the json fake's contract: loads(dumps(x)) == x with dict keys stringified"]
MUST_REACH = ["load-ok", "read-error", "missing-created", "empty-ok"]

NATIVE = {
    "0": {"battery_level": 0, "children": {}, "heartbeat": 0, "node_id": 0, "node_type": 18, "protocol_version": "2.2.0",
          "sketch_name": "", "sketch_version": "", "sleeping": False},
    "1": {"battery_level": 55, "children": {"1": {"child_id": 1, "child_type": 38, "description": "gps", "values": {"49": "40.7,-73.9,12"}}},
          "heartbeat": 10, "node_id": 1, "node_type": 17, "protocol_version": "2.3.2", "sketch_name": "GPS Sensor", "sketch_version": "1.0", "sleeping": True},
}
LEGACY = {
    "0": {"sensor_id": 0, "children": {}, "type": None, "sketch_name": None, "sketch_version": None, "battery_level": 0,
          "protocol_version": "2.2.0", "heartbeat": 0},
    "1": {"sensor_id": 1, "children": {"1": {"id": 1, "type": 38, "description": "", "values": {"49": "40.7,-73.9,12"}}},
          "type": 17, "sketch_name": "GPS Sensor", "sketch_version": "1.0", "battery_level": 0, "protocol_version": "2.3.2", "heartbeat": 0},
}
NODE_FIELDS = {"native": ["battery_level", "children", "heartbeat", "node_id", "node_type", "protocol_version", "sketch_name", "sketch_version", "sleeping"],
               "legacy": ["battery_level", "children", "heartbeat", "sensor_id", "type", "protocol_version", "sketch_name", "sketch_version"]}
CHILD_FIELDS = {"native": ["child_id", "child_type", "description", "values"], "legacy": ["id", "type", "description", "values"]}


def partitions(tier):
    q = tier == "quick"
    parts = []
    for layout in ("native", "legacy"):
        for grp in ("doc", "nodefield", "child", "dropadd"):
            parts.append({"name": "mutate-%s-%s" % (layout, grp), "fn": "sym_mutate", "layout": layout, "group": grp, "budget": 600 if q else 2400, "cost": 4})
    for i in range(3):
        parts.append({"name": "prefix-%d" % i, "fn": "sym_prefix", "doc": i, "budget": 600, "cost": 6})
    parts.append({"name": "special", "fn": "sym_special", "budget": 300, "cost": 2})
    return parts


def setup(part):
    stub_repr()


STR_CLASSES = ["", "7", "abc", "1.5", "٣", "x\u00e9", "true", "-1"]
KEY_CLASSES = ["", "1", "abc", "-1", "1.5", "256", "٣", " 2"]
STR_FIELDS = ("description", "sketch_name", "sketch_version", "protocol_version")


def _value(inp, tag="", strfield=False):
    """null / true / symbolic int / string / [] / {} / [1] / {'a':1}.  Strings are symbolic where
    the schema expects a string and a class list elsewhere (int() of a symbolic non-digit string
    is realised code point by code point, which would never exhaust)."""
    k = inp.pick("vk" + tag, 8)
    if k == 0:
        return None
    if k == 1:
        return True
    if k == 2:
        return inp.int("vi" + tag, -10 ** 6, 10 ** 6)
    if k == 3:
        if strfield:
            return inp.str("vs" + tag, 1)
        return STR_CLASSES[inp.pick("vc" + tag, len(STR_CLASSES))]
    return [[], {}, [1], {"a": 1}][k - 4]


def _copy(x):
    if isinstance(x, dict):
        return {k: _copy(v) for k, v in x.items()}
    if isinstance(x, list):
        return [_copy(v) for v in x]
    return x


def _outcome(res):
    from aiomysensors.exceptions import PersistenceReadError

    if res[0] == "ok":
        return "load-ok"
    e = res[1]
    if isinstance(e, PersistenceReadError):
        return "read-error"
    raise Violation("foreign-exception:%s" % type(e).__name__, "Persistence.load raised %s: %s" % (type(e).__name__, str(e)[:200]))


def _load_doc(inp, doc):
    sym = bool(getattr(inp, "symbolic", False))
    content = doc if not sym else None
    fs = FS()
    if sym:
        from sx.fsmodel import Token

        fs.files[PATH] = Token(doc)
    else:
        try:
            fs.files[PATH] = real_json.dumps(doc)
        except (TypeError, ValueError):
            raise Reject
    try:
        return load_into(fs, sym)
    finally:
        unwire()


def sym_mutate(inp, part):
    layout, grp = part["layout"], part["group"]
    doc = _copy(NATIVE if layout == "native" else LEGACY)
    nf, cf = NODE_FIELDS[layout], CHILD_FIELDS[layout]
    if grp == "doc":
        k = inp.pick("pos", 4)
        if k == 0:
            doc = _value(inp)
        elif k == 1:
            doc["1"] = _value(inp)
        elif k == 2:
            doc["1"]["children"] = _value(inp)
        else:
            # the top-level keys are just labels: any JSON object key must be survivable
            doc[(KEY_CLASSES + ["gateway", "node-1"])[inp.pick("topkey", len(KEY_CLASSES) + 2)]] = doc.pop("1")
    elif grp == "nodefield":
        f = nf[inp.pick("field", len(nf))]
        if f == "children":
            raise Reject
        doc["1"][f] = _value(inp, strfield=f in STR_FIELDS)
    elif grp == "child":
        k = inp.pick("pos", 4 + len(cf))
        child = doc["1"]["children"]["1"]
        if k == 0:
            doc["1"]["children"]["1"] = _value(inp)
        elif k == 1:
            doc["1"]["children"] = {KEY_CLASSES[inp.pick("ckey", len(KEY_CLASSES))]: child}
        elif k == 2:
            child["values"] = {KEY_CLASSES[inp.pick("vkey", len(KEY_CLASSES))]: "x"}
        elif k == 3:
            child["values"] = {"49": _value(inp, strfield=True)}
        else:
            child[cf[k - 4]] = _value(inp, strfield=cf[k - 4] in STR_FIELDS)
    else:
        k = inp.pick("pos", 4)
        if k == 0:
            del doc["1"][nf[inp.pick("field", len(nf))]]
        elif k == 1:
            del doc["1"]["children"]["1"][cf[inp.pick("field", len(cf))]]
        elif k == 2:
            doc["1"]["unknown_field"] = _value(inp)
        else:
            doc["1"]["children"]["1"]["unknown_field"] = _value(inp)
    return [_outcome(_load_doc(inp, doc)), grp]


DOCS = [NATIVE, LEGACY, {"7": {"node_id": 7, "node_type": 17, "protocol_version": "1.4", "children": {}}}]


def sym_prefix(inp, part):
    text = real_json.dumps(DOCS[part["doc"]], sort_keys=True, indent=2 if part["doc"] == 0 else None)
    cut = inp.int("cut", 0, len(text))
    fs = FS({PATH: text[:cut]})
    try:
        res = load_into(fs, False)
    finally:
        unwire()
    out = _outcome(res)
    if out == "load-ok":
        if cut == 0:
            if len(res[1]) != 0:
                raise Violation("empty-file-not-empty-registry", "empty file loaded %d nodes" % len(res[1]))
            return ["empty-ok", cut]
        if cut != len(text):
            raise Violation("truncated-file-accepted", "a strict prefix (%d of %d chars) loaded as %d nodes" % (cut, len(text), len(res[1])))
    return [out, 0]


def sym_special(inp, part):
    from aiomysensors import persistence as P
    from aiomysensors.model.node import Node

    k = inp.pick("case", 9)
    if k < 5:
        data = [b"\xff\xfe", b"\x80", b'{"1": "\xc3"}', b"\xed\xa0\x80", b"{}\xff"][k]
        fs = FS({PATH: data})
        try:
            res = load_into(fs, False)
        finally:
            unwire()
        out = _outcome(res)
        if out != "read-error":
            raise Violation("undecodable-accepted", "bytes %r loaded" % (data,))
        return [out, k]
    if k == 5 or k == 6:
        fs = FS({PATH: "{}"}, faults={("open-r" if k == 5 else "read"): OSError(5, "Input/output error")})
        try:
            res = load_into(fs, False)
        finally:
            unwire()
        out = _outcome(res)
        if out != "read-error":
            raise Violation("oserror-not-reported", "OSError on %s gave %s" % ("open" if k == 5 else "read", out))
        return [out, k]
    if k == 7:
        fs = FS({PATH: ""})
        try:
            res = load_into(fs, False)
        finally:
            unwire()
        if _outcome(res) != "load-ok" or len(res[1]) != 0:
            raise Violation("empty-file-not-empty-registry", "empty file gave %r" % (res,))
        return ["empty-ok", k]
    # missing file: created holding the current registry, no error
    fs = FS({})
    Pm = wire(fs, False)
    try:
        nodes = {3: Node(3, 17, "2.0", sketch_name="n3")}
        pers = Pm.Persistence(nodes, PATH)
        from harness.common import run

        try:
            run(pers.load())
        except Exception as e:  # noqa: BLE001
            raise Violation("missing-file-raises:%s" % type(e).__name__, str(e)[:150])
        if PATH not in fs.files:
            raise Violation("missing-file-not-created", "load() of a missing file did not create it")
        res = load_into(fs, False)
        if res[0] != "ok":
            raise Violation("missing-file-created-unreadable", repr(res[1]))
        compare_snapshots(snapshot(res[1]), snapshot(nodes), "missing-created")
    finally:
        unwire()
    return ["missing-created", k]
