"""C17 - serial/TCP transport delivers exactly the lines of the byte stream."""
from __future__ import annotations

import asyncio

from harness.c16_lifecycle import FakeWriter
from harness.common import Reject, Violation, stub_repr
from sx import vloop

PROPERTY = "C17"
BOUNDS = {
    "quick": "byte streams over the alphabet {0a,0d,3b,41,80,c3,a9,ff} of length <= 3, arriving in 1 or 2 chunks (cut point symbolic), with or without EOF, through the real asyncio.StreamReader on a real event loop (reader task and feeder task interleave); 8 special streams (UTF-8 / UTF-16 byte-order marks, NUL, multi-byte characters); over-long lines with the reader limit lowered to 2; writes: 1..2 lines from a 6-text class list (ASCII, ';', non-ASCII, astral) with symbolic fault bits on write/drain; connect fault; close fault; use before connect; TCPTransport and SerialTransport factories",
    "thorough": "length <= 4 in 1..2 chunks, length <= 3 in up to 3 chunks; 1..3 writes from 3 texts",
}
REALISED = ["bytes, cut points and texts are forked into concrete values (CrossHair cannot keep bytes symbolic through bytearray / decode): the solver enumerates the stated grid"]
STUBS = ["asyncio.open_connection / open_serial_connection -> factories returning a real StreamReader and a fake writer, or raising OSError", "fake StreamWriter (records bytes; write/drain/close may raise OSError)"]
ASSUMPTIONS = ["a real reader raises only LimitOverrunError, IncompleteReadError or OSError from readuntil (documented)", "byte values outside the alphabet are outside the claim for framing (decode totality over UTF-8 byte classes is part of C03)"]
MUST_REACH = ["lines-ok", "overrun-ok", "writes-ok", "write-fault-ok", "connect-fault-ok", "not-connected-ok"]

ALPHABET = [0x0A, 0x0D, 0x3B, 0x41, 0x80, 0xC3, 0xA9, 0xFF]
SPECIAL_STREAMS = [b"\xef\xbb\xbfA\n", b"\xef\xbb\xbf\n", b"A\xef\xbb\xbf\n\xef\xbb\xbfB\n", b"\xfe\xff\n", b"\xff\xfeA\x00\n", b"\x00\n",
                   b"\xc3\xa9\n\xef\xbb\xbf", b"1;1;1;0;47;\xe6\x97\xa5\xe6\x9c\xac\n" * 3]
TEXTS = ["0;0;1;0;0;\n", "1;255;3;0;11;a;b\n", "1;1;1;0;47;é\n", "2;2;1;0;47;日本\n", "3;3;1;0;47;\U0001f600\n", "\n"]


def partitions(tier):
    q = tier == "quick"
    parts = []
    L = 3 if q else 4
    for first in range(len(ALPHABET)):
        parts.append({"name": "read-first%02x" % ALPHABET[first], "fn": "sym_read", "first": first, "maxlen": L, "chunks": 2,
                      "budget": 600 if q else 3600, "cost": 6 if q else 30})
        if not q:
            parts.append({"name": "read3chunks-first%02x" % ALPHABET[first], "fn": "sym_read", "first": first, "maxlen": 3, "chunks": 3,
                          "budget": 3000, "cost": 12})
    parts.append({"name": "read-empty", "fn": "sym_read", "first": None, "maxlen": 0, "chunks": 1, "budget": 100, "cost": 1})
    parts.append({"name": "read-special", "fn": "sym_read", "first": "special", "maxlen": 0, "chunks": 2, "budget": 300, "cost": 2})
    parts.append({"name": "overrun", "fn": "sym_overrun", "maxlen": L + 1, "budget": 600 if q else 3000, "cost": 5})
    for kind in ("tcp", "serial"):
        for nw in range(1, (2 if q else 3) + 1):
            for t0 in range(3):
                parts.append({"name": "write-%s-n%d-t%d" % (kind, nw, t0), "fn": "sym_write", "kind": kind, "maxwrites": 2 if q else 3, "nwrites": nw, "t0": t0,
                              "budget": 600 if q else 3000, "cost": 2 * nw})
        parts.append({"name": "connect-%s" % kind, "fn": "sym_connect", "kind": kind, "budget": 300, "cost": 1})
    return parts


def setup(part):
    stub_repr()


def _mk(kind, reader, writer, connect_fault=False):
    async def factory(*a, **kw):
        await asyncio.sleep(0)
        if connect_fault:
            raise OSError(111, "Connection refused")
        return reader, writer

    if kind == "tcp":
        from aiomysensors.transport import tcp

        tr = tcp.TCPTransport("host", 5003)
        restore = (asyncio, "open_connection", asyncio.open_connection)
        asyncio.open_connection = factory
    else:
        from aiomysensors.transport import serial

        tr = serial.SerialTransport("/dev/ttyX", 115200)
        restore = (serial, "open_serial_connection", serial.open_serial_connection)
        serial.open_serial_connection = factory
    return tr, restore


def _expected(data, eof):
    parts = data.split(b"\n")
    lines = [p + b"\n" for p in parts[:-1]]
    exp = []
    for ln in lines:
        try:
            exp.append(("line", ln.decode()))
        except UnicodeDecodeError:
            exp.append(("err", "TransportReadError"))
    if eof:
        exp.append(("err", "TransportReadError"))  # stream ended (mid-line or at a line boundary)
    return exp


def sym_read(inp, part):
    from aiomysensors.exceptions import TransportError

    if part["first"] is None:
        data = b""
    elif part["first"] == "special":
        data = SPECIAL_STREAMS[inp.pick("stream", len(SPECIAL_STREAMS))]
    else:
        k = 1 + inp.pick("len", part["maxlen"])
        data = bytes([ALPHABET[part["first"]]] + [ALPHABET[inp.pick("b%d" % i, len(ALPHABET))] for i in range(1, k)])
    eof = bool(inp.bool("eof"))
    cuts = sorted(inp.pick("cut%d" % j, len(data) + 1) for j in range(part["chunks"] - 1)) if data else []
    chunks = []
    prev = 0
    for c in cuts + [len(data)]:
        chunks.append(data[prev:c])
        prev = c
    exp = _expected(data, eof)
    kind = "tcp" if (part["first"] if isinstance(part["first"], int) else 0) % 2 == 0 else "serial"
    got = []

    async def main():
        reader = asyncio.StreamReader()
        tr, restore = _mk(kind, reader, FakeWriter())
        try:
            await tr.connect()
        finally:
            setattr(restore[0], restore[1], restore[2])

        async def consume():
            for _ in range(len(exp)):
                try:
                    s = await tr.read()
                    got.append(("line", s))
                except TransportError as e:
                    got.append(("err", type(e).__name__))
                except asyncio.CancelledError:
                    raise
                except Exception as e:  # noqa: BLE001
                    got.append(("foreign", type(e).__name__ + ": " + str(e)[:80]))

        task = asyncio.create_task(consume())
        for ch in chunks:
            await asyncio.sleep(0)
            if ch:
                reader.feed_data(ch)
            await asyncio.sleep(0)
        if eof:
            reader.feed_eof()
        for _ in range(4 * (len(exp) + 1)):
            if task.done():
                break
            await asyncio.sleep(0)
        if not task.done():
            task.cancel()
            try:
                await task
            except asyncio.CancelledError:
                pass
            got.append(("blocked", len(got)))
        # nothing more must be delivered: a further read blocks (no EOF) or fails (EOF)
        await tr.disconnect()

    try:
        vloop.run(main)
    except vloop.Deadlock as e:
        raise Violation("deadlock", str(e))
    for g in got:
        if g[0] == "foreign":
            raise Violation("foreign-exception:%s" % g[1].split(":")[0], "stream %r chunks %r eof=%s: read raised %s" % (data, chunks, eof, g[1]))
    if got != exp:
        raise Violation("wrong-lines", "stream %r chunks %r eof=%s: reads gave %r, expected %r" % (data, chunks, eof, got, exp))
    return ["lines-ok", len(exp)]


def sym_overrun(inp, part):
    """Reader limit 2: over-long lines surface as transport errors, never as other exceptions,
    and lines within the limit are still delivered correctly before the over-long one."""
    from aiomysensors.exceptions import TransportError

    k = inp.pick("len", part["maxlen"] + 1)
    abc = [0x41, 0x0A, 0xC3]
    data = bytes(abc[inp.pick("b%d" % i, 3)] for i in range(k))
    eof = bool(inp.bool("eof"))
    got = []

    async def main():
        reader = asyncio.StreamReader(limit=2)
        tr, restore = _mk("tcp", reader, FakeWriter())
        try:
            await tr.connect()
        finally:
            setattr(restore[0], restore[1], restore[2])
        reader.feed_data(data)
        if eof:
            reader.feed_eof()
        for _ in range(k + 2):
            buf = bytes(reader._buffer)
            if not eof and b"\n" not in buf and len(buf) <= 2:
                break  # would block
            try:
                s = await tr.read()
                got.append(("line", s))
            except TransportError as e:
                got.append(("err", type(e).__name__))
                # keep reading: after an over-long line the data stays in the reader's buffer, so
                # later reads must fail again (or block) - never return a fragment as a line
            except Exception as e:  # noqa: BLE001
                raise Violation("foreign-exception:%s" % type(e).__name__, "stream %r limit 2: read raised %s: %s" % (data, type(e).__name__, str(e)[:100]))

    try:
        vloop.run(main)
    except vloop.Deadlock as e:
        raise Violation("deadlock", str(e))
    # delivered lines must be a prefix of the stream's real lines, each within the limit
    exp = _expected(data, False)
    for i, g in enumerate(got):
        if g[0] == "line":
            if i >= len(exp) or exp[i] != g:
                raise Violation("wrong-lines", "stream %r limit 2: read %d gave %r, expected %r" % (data, i, g, exp[i] if i < len(exp) else None))
    return ["overrun-ok", len(got)]


def sym_write(inp, part):
    from aiomysensors.exceptions import TransportError, TransportFailedError

    n = part["nwrites"]
    pool = TEXTS if part.get("maxwrites", 2) <= 2 else TEXTS[1:4]
    half = len(pool) // 3 or 1
    first_pool = pool[part["t0"] * half:(part["t0"] + 1) * half] if part.get("maxwrites", 2) <= 2 else [pool[part["t0"]]]
    texts = [(first_pool if i == 0 else pool)[inp.pick("t%d" % i, len(first_pool if i == 0 else pool))] for i in range(n)]
    wf = [bool(inp.bool("write_fault%d" % i)) for i in range(n)]
    df = [bool(inp.bool("drain_fault%d" % i)) for i in range(n)]
    close_fault = bool(inp.bool("close_fault"))

    class W(FakeWriter):
        def __init__(self):
            super().__init__(close_fault)
            self.i = 0

        def write(self, b):
            if wf[self.i]:
                raise OSError(32, "Broken pipe")
            super().write(b)

        async def drain(self):
            i = self.i
            self.i += 1
            await asyncio.sleep(0)
            if df[i]:
                raise ConnectionResetError(104, "reset")

    writer = W()
    outcomes = []

    async def main():
        tr, restore = _mk(part["kind"], asyncio.StreamReader(), writer)
        try:
            await tr.connect()
        finally:
            setattr(restore[0], restore[1], restore[2])
        for i, t in enumerate(texts):
            try:
                await tr.write(t)
                outcomes.append("ok")
            except TransportError:
                outcomes.append("failed")
                if wf[i]:
                    writer.i += 1
            except Exception as e:  # noqa: BLE001
                raise Violation("write:foreign-exception:%s" % type(e).__name__, "write(%r) raised %s: %s" % (t, type(e).__name__, str(e)[:100]))
        try:
            await tr.disconnect()
        except Exception as e:  # noqa: BLE001
            raise Violation("disconnect-raises:%s" % type(e).__name__, "disconnect did not absorb %s" % (str(e)[:100],))
        if not writer.closed:
            raise Violation("disconnect-did-not-close", "writer not closed")

    try:
        vloop.run(main)
    except vloop.Deadlock as e:
        raise Violation("deadlock", str(e))
    want_bytes = []
    want_out = []
    for i, t in enumerate(texts):
        if wf[i]:
            want_out.append("failed")
        else:
            want_bytes.append(t.encode("utf-8"))
            want_out.append("failed" if df[i] else "ok")
    if outcomes != want_out:
        raise Violation("write-outcomes", "writes %r faults w=%r d=%r: outcomes %r, expected %r" % (texts, wf, df, outcomes, want_out))
    if writer.data != want_bytes:
        raise Violation("wrong-bytes", "peer received %r, expected %r" % (writer.data, want_bytes))
    return ["write-fault-ok" if "failed" in want_out else "writes-ok", n]


def sym_connect(inp, part):
    from aiomysensors.exceptions import TransportError

    case = inp.pick("case", 4)
    res = {}

    async def main():
        tr, restore = _mk(part["kind"], asyncio.StreamReader(), FakeWriter(), connect_fault=(case == 0))
        try:
            if case == 0:
                try:
                    await tr.connect()
                    res["r"] = "connected"
                except TransportError:
                    res["r"] = "connect-fault-ok"
                except Exception as e:  # noqa: BLE001
                    res["r"] = "foreign:" + type(e).__name__
            elif case == 1:
                try:
                    await tr.read()
                    res["r"] = "read-returned"
                except TransportError:
                    res["r"] = "not-connected-ok"
                except Exception as e:  # noqa: BLE001
                    res["r"] = "foreign:" + type(e).__name__
            elif case == 2:
                try:
                    await tr.write("1;1;1;0;0;x\n")
                    res["r"] = "write-returned"
                except TransportError:
                    res["r"] = "not-connected-ok"
                except Exception as e:  # noqa: BLE001
                    res["r"] = "foreign:" + type(e).__name__
            else:
                try:
                    await tr.disconnect()
                    res["r"] = "not-connected-ok"
                except Exception as e:  # noqa: BLE001
                    res["r"] = "foreign:" + type(e).__name__
        finally:
            setattr(restore[0], restore[1], restore[2])

    vloop.run(main)
    r = res["r"]
    if r not in ("connect-fault-ok", "not-connected-ok"):
        raise Violation("connect-case-%d:%s" % (case, r), "case %d gave %s" % (case, r))
    return [r, case]
