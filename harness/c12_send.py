"""C12 - send never silently discards a message."""
from __future__ import annotations

from harness.c01_codec import wellformed
from harness.common import LINE_TERMINATORS, VERSIONS, Reject, Violation, run, stub_repr
from harness.stepkit import draw_id, World
from spec import step_model as M

PROPERTY = "C12"
BOUNDS = {
    "quick": "node sym [10,99], child sym [10,99] or 255, command per partition (all five), ack sym [0,1], type sym [-1,40], payload symbolic |p|<=1, buffering flag symbolic, destination unknown / awake / sleeping; codec precondition (C02 predicate); 5 versions; for 2.x a message that was neither written nor refused must be written at the destination's next wake; non-message objects from a 7-element class list",
    "thorough": "ids sym [0,255] (every digit class, incl. the gateway node 0), type sym [-3,999]",
}
REALISED = ["negative type numbers are realised"]
STUBS = ["RecTransport", "symbolic maps", "__repr__ -> constant"]
ASSUMPTIONS = ["under 1.x no wake signal exists: a command held for a destination flagged sleeping (flag restored from persistence) counts as held, not discarded",
               "library error = subclass of AIOMySensorsError"]
MUST_REACH = ["written", "held-then-written", "rejected-non-message"]


def partitions(tier):
    q = tier == "quick"
    parts = []
    for v in VERSIONS:
        for cmd in range(5):
            parts.append({"name": "send-%s-cmd%d" % (v, cmd), "fn": "sym_send", "version": v, "cmd": cmd,
                          "idlo": 10 if q else 0, "idhi": 99 if q else 255, "tlo": -1 if q else -3, "thi": 40 if q else 999, "maxlen": 1,
                          "budget": 500 if q else 3000, "cost": 3})
        parts.append({"name": "nonmessage-%s" % v, "fn": "sym_nonmessage", "version": v, "budget": 200, "cost": 1})
    return parts


def setup(part):
    stub_repr()


def sym_send(inp, part):
    from aiomysensors.exceptions import AIOMySensorsError
    from aiomysensors.model.message import Message

    v, cmd = part["version"], part["cmd"]
    w = World(inp, v)
    lo, hi = part["idlo"], part["idhi"]
    n = draw_id(inp, "n", part, lo, hi)
    c = 255 if (hi < 255 and inp.bool("sys")) else draw_id(inp, "c", part, lo, hi)
    ack = inp.int("ack", 0, 1)
    t = inp.int("t", part["tlo"], part["thi"])
    p = inp.str("p", part["maxlen"], exclude=LINE_TERMINATORS, no_trailing_ws=True)
    if not wellformed(n, c, cmd, ack, t):
        raise Reject
    dest = inp.pick("dest", 3)  # unknown / awake / sleeping
    if dest >= 1:
        w.add_node(n, sleeping=(dest == 2))
    buffering = inp.bool("buffering")
    if w.st.is2() and cmd == 3 and inp.bool("request_outstanding"):
        w.mark(n)  # the controller's own presentation request for this node is outstanding
    other = None
    if dest == 2 and cmd == 1 and inp.bool("other_parked"):
        # an earlier command for the same child with another value type is already held
        other = Message(n, c, 1, 0, t + 1, "earlier")  # another value type of the same child
        run(w.gw.send(other))
        if w.tr.writes:
            raise Violation("harness:park-wrote", "send to a sleeping node wrote immediately")
    m = Message(n, c, cmd, ack, t, p)
    expect = M.line(n, c, cmd, ack, t, p)
    try:
        run(w.gw.send(m, message_buffer=buffering))
    except (Reject, Violation):
        raise
    except AIOMySensorsError as e:
        if w.tr.writes:
            raise Violation("error-and-write", "send raised %s but also wrote %r" % (type(e).__name__, w.tr.writes))
        return ["refused:" + type(e).__name__, cmd]
    except Exception as e:  # noqa: BLE001
        raise Violation("foreign-exception:%s" % type(e).__name__, "send(%r) raised %s: %s" % (expect, type(e).__name__, str(e)[:150]))
    if len(w.tr.writes) == 1:
        if w.tr.writes[0] != expect:
            raise Violation("wrote-other-line", "send wrote %r, the message encodes to %r" % (w.tr.writes[0], expect))
        return ["written", cmd]
    if len(w.tr.writes) > 1:
        raise Violation("wrote-several", "send wrote %r" % (w.tr.writes,))
    # nothing written, no error: must be held for a sleeping destination
    if dest != 2:
        raise Violation("silently-discarded", "send(%r) to a destination that is not sleeping wrote nothing and raised nothing" % (expect,))
    if not w.st.is2():
        buf = w.gw._message_buffer
        held = 0
        for mm in list(buf.set_messages.values()) + list(buf.internal_messages.values()):
            if mm is m:
                held += 1
        if held != 1:
            raise Violation("silently-discarded", "send(%r) under %s is neither written nor held" % (expect, v))
        return ["held-1x", cmd]
    if inp.bool("version_report_before_wake"):
        k0, v0, w0 = w.feed(M.line(0, 255, 3, 0, 2, v))
        if k0 != "msg" or w0:
            raise Violation("version-report-disturbed", "version report before the wake gave %s, writes %r" % (k0, w0))
    if inp.bool("destination_represents_before_wake"):
        # the destination reboots and presents itself again (its registry entry is re-created) before it wakes
        # (payload = the gateway's own version: if the destination is node 0 this is also a version report,
        # which must not change the protocol in force)
        k1, v1, w1 = w.feed(M.line(n, 255, 0, 0, 17, v))
        if k1 != "msg":
            raise Violation("re-presentation-failed:%s" % type(v1).__name__, str(v1)[:150])
    wake = (n, 255, 3, 0, 32, "") if v == "2.2" else (n, 255, 3, 0, 22, "10")
    kind, val, writes = w.feed(M.line(*wake))
    if kind != "msg":
        raise Violation("wake-failed:%s" % type(val).__name__, str(val)[:150])
    hit = 0
    for wr in writes:
        if wr == expect:
            hit += 1
    if hit != 1:
        raise Violation("held-but-not-released", "send(%r) was held; the destination's next wake wrote %r" % (expect, writes))
    if other is not None:
        oline = M.line(n, c, 1, 0, t + 1, "earlier")
        ohit = 0
        for wr in writes:
            if wr == oline:
                ohit += 1
        if ohit != 1:
            raise Violation("earlier-held-command-discarded", "a command held earlier for the same child (other value type) was written %d times at the wake: %r" % (ohit, writes))
    return ["held-then-written", cmd]


class Fake:
    node_id = 1
    child_id = 1


def sym_nonmessage(inp, part):
    from aiomysensors.exceptions import InvalidMessageError

    w = World(inp, part["version"])
    objs = ["invalid", None, 5, {}, object(), Fake(), ["1;1;1;0;0;x"]]
    k = inp.pick("obj", len(objs))
    try:
        run(w.gw.send(objs[k]))
    except (Reject, Violation):
        raise
    except InvalidMessageError:
        if w.tr.writes:
            raise Violation("nonmessage-written", repr(w.tr.writes))
        return ["rejected-non-message", k]
    except Exception as e:  # noqa: BLE001
        raise Violation("nonmessage:foreign-exception:%s" % type(e).__name__, "send(%r) raised %s: %s" % (objs[k], type(e).__name__, str(e)[:150]))
    raise Violation("nonmessage-accepted", "send(%r) did not raise" % (objs[k],))
