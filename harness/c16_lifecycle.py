"""C16 - gateway context: load on entry, periodic and final save, no leftovers."""
from __future__ import annotations

import asyncio

from harness.common import Reject, Violation, stub_repr
from harness.persistkit import PATH, compare_snapshots, load_into, snapshot, unwire, wire
from sx import vloop
from sx.fsmodel import FS

PROPERTY = "C16"
BOUNDS = {
    "quick": "real asyncio loop in virtual time; exit moment k sym [0,12] loop turns after entry (every file operation of the model is a suspension point, so k lands before the saver first runs, inside each operation of a save, and in its sleep); body ends normally or raises; fault bits: connect fails (with a transport error, or - stub transport - interrupted by CancelledError), disconnect fails (MQTT: with MqttError or with an OSError from a dead connection); stream transports: the peer may close at a message boundary before the context is left; transport kinds: stub, TCPTransport and SerialTransport on fake reader/writer, MQTTClient on a fake broker client; virtual durations D in {0,1,899,900,901,1800,2700} s in a first or a second session of the same gateway object; stub transport whose connect/disconnect suspend or not; persistence file present (2 nodes), missing, or unloadable (5 contents / read fault: the error propagates and the file stays untouched); one partition with file handles of symbolic speed (each handle 1 or 5 suspensions per operation)",
    "thorough": "k sym [0,20], D additionally {3599,3600,9000}",
}
REALISED = ["k and D are forked into concrete values (each is one path)"]
STUBS = ["persistence.aiofiles -> in-memory file system, each operation awaits asyncio.sleep(0)", "event loop: real SelectorEventLoop in virtual time (sx/vloop.py)",
         "asyncio.open_connection / open_serial_connection -> fake reader/writer factories that may raise OSError", "aiomqtt.Client -> fake client (harness/mqttkit.py)"]
ASSUMPTIONS = ["a failing connect/disconnect raises what the transport contract says (TransportError for the stub, OSError from the stream factories / writer)",
               "the body changes the registry right before leaving, so the file at exit proves the final save ran after the body"]
MUST_REACH = ["exit-ok", "body-error-propagated", "connect-failed-clean", "cadence-ok"]


class BodyError(Exception):
    pass


class LifeTransport:
    def __init__(self, connect_fault=False, disconnect_fault=False, suspend=True):
        self.connect_fault = connect_fault
        self.disconnect_fault = disconnect_fault
        self.suspend = suspend  # an in-memory transport may connect / disconnect without ever suspending
        self.connected = False
        self.disconnect_calls = 0

    async def connect(self):
        from aiomysensors.exceptions import TransportError

        if self.suspend:
            await asyncio.sleep(0)
        if self.connect_fault == "cancel":
            raise asyncio.CancelledError()  # connect interrupted by a cancellation / timeout
        if self.connect_fault:
            raise TransportError("injected connect fault")
        self.connected = True

    async def disconnect(self):
        from aiomysensors.exceptions import TransportError

        self.disconnect_calls += 1
        if self.suspend:
            await asyncio.sleep(0)
        self.connected = False
        if self.disconnect_fault:
            raise TransportError("injected disconnect fault")

    async def read(self):
        await asyncio.sleep(10 ** 9)

    async def write(self, m):
        pass

    def is_down(self):
        return not self.connected


class FakeWriter:
    def __init__(self, close_fault=False):
        self.closed = False
        self.close_fault = close_fault
        self.data = []

    def write(self, b):
        self.data.append(b)

    async def drain(self):
        await asyncio.sleep(0)

    def close(self):
        self.closed = True

    async def wait_closed(self):
        await asyncio.sleep(0)
        if self.close_fault:
            raise OSError(104, "Connection reset by peer")


def make_transport(kind, connect_fault, disconnect_fault, suspend=True):
    if kind == "stub":
        return LifeTransport(connect_fault, disconnect_fault, suspend), None
    if kind in ("tcp", "serial"):
        writer = FakeWriter(disconnect_fault)
        reader_box = {}

        async def factory(*a, **kw):
            await asyncio.sleep(0)
            if connect_fault:
                raise OSError(111, "Connection refused")
            reader_box["reader"] = asyncio.StreamReader()
            return reader_box["reader"], writer

        if kind == "tcp":
            from aiomysensors.transport import tcp

            tr = tcp.TCPTransport("host")
            restore = (asyncio, "open_connection", asyncio.open_connection)
            asyncio.open_connection = factory
        else:
            from aiomysensors.transport import serial

            tr = serial.SerialTransport("/dev/ttyX")
            restore = (serial, "open_serial_connection", serial.open_serial_connection)
            serial.open_serial_connection = factory
        # "disconnected" = our end of the stream was really closed (not: the transport forgot its writer)
        tr.is_down = lambda: writer.closed or "reader" not in reader_box
        tr.reader_box = reader_box
        return tr, restore
    from harness import mqttkit

    tr, restore = mqttkit.make_client(connect_fault, disconnect_fault)
    return tr, restore


def partitions(tier):
    q = tier == "quick"
    parts = []
    for kind in ("stub", "tcp", "serial", "mqtt"):
        for missing in ((0, 1) if kind == "stub" else (0,)):
            parts.append({"name": "exit-%s%s" % (kind, "-nofile" if missing else ""), "fn": "sym_exit", "kind": kind, "missing": missing, "suspend": True,
                          "kmax": 12 if q else 20, "budget": 600 if q else 2400, "cost": 6})
    parts.append({"name": "exit-stub-latency", "fn": "sym_exit", "kind": "stub", "missing": 0, "suspend": True, "latency": True, "nofaults": True,
                  "kmax": 12 if q else 20, "budget": 600 if q else 2400, "cost": 8})
    parts.append({"name": "exit-stub-nosuspend", "fn": "sym_exit", "kind": "stub", "missing": 0, "suspend": False,
                  "kmax": 12 if q else 20, "budget": 600 if q else 2400, "cost": 6})
    parts.append({"name": "entry-load-fails", "fn": "sym_entry_fails", "budget": 300, "cost": 2})
    parts.append({"name": "cadence", "fn": "sym_cadence", "durations": [0, 1, 899, 900, 901, 1800, 2700] + ([] if q else [3599, 3600, 9000]),
                  "budget": 600, "cost": 4})
    return parts


def setup(part):
    stub_repr()


def _initial_files(missing):
    import json

    if missing:
        return {}
    doc = {"1": {"node_id": 1, "node_type": 17, "protocol_version": "2.0", "children": {}, "sketch_name": "a"},
           "2": {"node_id": 2, "node_type": 17, "protocol_version": "2.2", "children": {"3": {"child_id": 3, "child_type": 6, "description": "t", "values": {"0": "1"}}}}}
    return {PATH: json.dumps(doc)}


async def _yield():
    await asyncio.sleep(0)


def _check_disk(fs, gw, what):
    disk = FS(dict(fs.files))
    res = load_into(disk, False)
    if res[0] != "ok":
        raise Violation("%s:file-unreadable-at-exit" % what, str(res[1])[:200])
    compare_snapshots(snapshot(res[1]), snapshot(gw.nodes), what + ":file-vs-registry")


def sym_exit(inp, part):
    from aiomysensors.exceptions import AIOMySensorsError
    from aiomysensors.gateway import Config, Gateway
    from aiomysensors.model.node import Node

    kind = part["kind"]
    k = inp.pick("exit_after_turns", part["kmax"] + 1)
    if part.get("nofaults"):
        connect_fault = disconnect_fault = body_raises = False
    else:
        connect_fault = inp.bool("connect_fault")
        disconnect_fault = inp.bool("disconnect_fault")
        body_raises = inp.bool("body_raises")
    connect_fault = bool(connect_fault)
    if connect_fault and kind == "stub" and inp.bool("connect_cancelled"):
        connect_fault = "cancel"
    disconnect_fault = bool(disconnect_fault)
    body_raises = bool(body_raises)
    latency = None
    if part.get("latency"):
        # thread-pool file I/O of varying speed: every file handle (load, each save) is slow or fast
        lat = {}

        def latency(h):
            if h not in lat:
                lat[h] = 5 if inp.bool("slow_handle%d" % h) else 1
            return lat[h]

    fs = FS(_initial_files(part["missing"]), yielder=_yield, latency=latency)
    wire(fs, False)
    suspend = part.get("suspend", True)
    peer_closes = kind in ("tcp", "serial") and bool(inp.bool("peer_closes_before_exit"))
    if kind == "mqtt" and disconnect_fault and inp.bool("broker_exit_oserror"):
        disconnect_fault = "oserror"  # the broker connection is already dead: the client's exit fails below MQTT level
    tr, restore = make_transport(kind, connect_fault, disconnect_fault, suspend)
    state = {}

    async def main():
        gw = Gateway(tr, Config(persistence_file=PATH))
        state["gw"] = gw
        me = asyncio.current_task()
        exc = None
        entered = False
        try:
            async with gw:
                entered = True
                for _ in range(k):
                    await asyncio.sleep(0)
                if peer_closes and getattr(tr, "reader_box", None) and "reader" in tr.reader_box:
                    # the peer hangs up at a message boundary; the application sees the read error and leaves
                    tr.reader_box["reader"].feed_eof()
                    try:
                        await tr.read()
                    except AIOMySensorsError:
                        pass
                gw.nodes[9] = Node(9, 17, "2.1", sketch_name="late")
                if body_raises:
                    raise BodyError("body")
        except asyncio.CancelledError as e:
            exc = e
        except Exception as e:  # noqa: BLE001
            exc = e
        # no grace period: "leaves no background task running" is checked at the moment the context has ended
        left = [t for t in asyncio.all_tasks() if t is not me and not t.done()]
        state.update(exc=exc, entered=entered, left=len(left), left_names=[repr(t.get_coro())[:80] for t in left])
        for t in left:
            t.cancel()
        for t in left:
            try:
                await t
            except BaseException:  # noqa: BLE001
                pass

    try:
        try:
            vloop.run(main)
        except vloop.Deadlock as e:
            raise Violation("deadlock", str(e))
    finally:
        unwire()
        if restore is not None:
            setattr(restore[0], restore[1], restore[2])
    exc, entered, gw = state["exc"], state["entered"], state["gw"]
    if connect_fault == "cancel":
        if state["left"]:
            raise Violation("task-left-behind", "connect was cancelled: %d background task(s) still running: %s" % (state["left"], state["left_names"]))
        if not isinstance(exc, asyncio.CancelledError) or entered:
            raise Violation("connect-cancellation-swallowed", "connect was cancelled but %r propagated (entered=%s)" % (exc, entered))
        return ["connect-failed-clean", kind]
    if isinstance(exc, asyncio.CancelledError):
        raise Violation("cancelled-error-escapes", "'async with Gateway' raised CancelledError (exit after %d turns, body_raises=%s)" % (k, body_raises))
    if state["left"]:
        raise Violation("task-left-behind", "%d background task(s) still running after the context ended: %s" % (state["left"], state["left_names"]))
    if connect_fault:
        if exc is None or entered:
            raise Violation("connect-fault-swallowed", "connect failed but the context was entered / no error propagated")
        if not isinstance(exc, AIOMySensorsError):
            raise Violation("connect-fault-foreign-exception:%s" % type(exc).__name__, str(exc)[:150])
        return ["connect-failed-clean", kind]
    # context was entered and left
    if exc is not None and not isinstance(exc, (BodyError, AIOMySensorsError)) and not (disconnect_fault == "oserror" and isinstance(exc, OSError)):
        raise Violation("foreign-exception:%s" % type(exc).__name__, "'async with Gateway' raised %s: %s" % (type(exc).__name__, str(exc)[:150]))
    if body_raises and exc is None:
        raise Violation("body-exception-swallowed", "the body raised but nothing propagated")
    if body_raises and not disconnect_fault and not isinstance(exc, BodyError):
        raise Violation("body-exception-replaced:%s" % type(exc).__name__, str(exc)[:150])
    if not body_raises and not disconnect_fault and exc is not None:
        raise Violation("spurious-exception:%s" % type(exc).__name__, "clean exit raised %s: %s" % (type(exc).__name__, str(exc)[:150]))
    if not tr.is_down():
        raise Violation("transport-not-disconnected", "transport still connected after the context ended")
    try:
        _check_disk(fs, gw, "exit")
    finally:
        unwire()
    if 9 not in gw.nodes:
        raise Violation("harness:node9", "body did not run")
    return ["body-error-propagated" if body_raises else "exit-ok", kind]


def sym_entry_fails(inp, part):
    """Entering with a persistence file that cannot be loaded: the read error propagates, the file on disk is
    left exactly as it was (nobody may 'save' an empty registry over it), no task is left behind."""
    from aiomysensors.exceptions import PersistenceReadError
    from aiomysensors.gateway import Config, Gateway

    bad = ['{"1": {"node_id": 1, "node_type": 17, "proto', '[1, 2]', '{"1": {"node_id": 1}}', b"\xff\xfe{}", "{\"1\": 5}"][inp.pick("content", 5)]
    io_fault = bool(inp.bool("read_raises_oserror"))
    fs = FS({PATH: bad if not io_fault else '{"1": {"node_id": 1, "node_type": 17, "protocol_version": "2.0"}}'}, yielder=_yield,
            faults=({"read": OSError(5, "Input/output error")} if io_fault else None))
    before = dict(fs.files)
    wire(fs, False)
    tr = LifeTransport()
    state = {}

    async def main():
        gw = Gateway(tr, Config(persistence_file=PATH))
        me = asyncio.current_task()
        try:
            async with gw:
                state["entered"] = True
        except asyncio.CancelledError as e:
            state["exc"] = e
        except Exception as e:  # noqa: BLE001
            state["exc"] = e
        state["left"] = len([t for t in asyncio.all_tasks() if t is not me and not t.done()])

    try:
        try:
            vloop.run(main)
        except vloop.Deadlock as e:
            raise Violation("deadlock", str(e))
    finally:
        unwire()
    if state.get("entered"):
        raise Violation("entered-despite-unreadable-file", "the context was entered although the persistence file cannot be loaded")
    if not isinstance(state.get("exc"), PersistenceReadError):
        raise Violation("entry-failure:%s" % type(state.get("exc")).__name__, "expected PersistenceReadError, got %r" % (state.get("exc"),))
    if state["left"]:
        raise Violation("task-left-behind", "%d task(s) left after the failed entry" % state["left"])
    if dict(fs.files) != before:
        raise Violation("unreadable-file-overwritten", "a failed entry changed the persistence file: %r -> %r" % (before, dict(fs.files)))
    return ["connect-failed-clean", "load"]


def sym_cadence(inp, part):
    """Saves completed by virtual time D >= 1 + floor(D / 900); file == registry at every tick we look."""
    from aiomysensors.gateway import Config, Gateway
    from aiomysensors.model.node import Node

    D = part["durations"][inp.pick("D", len(part["durations"]))]
    second_session = bool(inp.bool("second_session"))
    fs = FS(_initial_files(0), yielder=_yield)
    wire(fs, False)
    tr = LifeTransport()
    state = {}

    async def main():
        gw = Gateway(tr, Config(persistence_file=PATH))
        state["gw"] = gw
        if second_session:
            # the same gateway object is entered, left and entered again (a reconnect)
            async with gw:
                await asyncio.sleep(1)
            del fs.ops[:]
        async with gw:
            await asyncio.sleep(0)
            gw.nodes[5] = Node(5, 17, "2.0")
            await asyncio.sleep(D)
            # a few turns so that a save that became due exactly now can complete
            for _ in range(8):
                await asyncio.sleep(0)
            state["ops"] = list(fs.ops)

    try:
        try:
            vloop.run(main)
        except vloop.Deadlock as e:
            raise Violation("deadlock", str(e))
        ops = state["ops"]
        writes_closed = 0
        opened_w = False
        for op in ops:
            if op.startswith("open-w"):
                opened_w = True
            elif op.startswith("close") and opened_w:
                writes_closed += 1
                opened_w = False
        need = 1 + D // 900
        if writes_closed < need:
            raise Violation("save-cadence", "after %d s of virtual time %d saves completed, expected at least %d" % (D, writes_closed, need))
        _check_disk(fs, state["gw"], "cadence")
    finally:
        unwire()
    return ["cadence-ok", D]
