"""C13 - persistence round trip: load reads back every registry that save can write."""
from __future__ import annotations

from harness.common import LINE_TERMINATORS, RecTransport, Reject, Violation, listen_step, stub_repr
from harness.persistkit import PATH, compare_snapshots, load_into, save_from, snapshot, unwire
BATTERY_TEXTS = ["55", "0", "100", "150", "-3", "abc", "100.6", "99.5"]
HEARTBEAT_TEXTS = ["0", "1111", "-5", "abc"]
from spec import step_model as M
from sx.fsmodel import FS, Token

PROPERTY = "C13"
BOUNDS = {
    "quick": "(1) registries built by feeding 2 + 2 received lines to a real 2.2 gateway: node presentation (type sym [10,99]), child presentation (type sym [10,99], description symbolic |s|<=1), set (payload symbolic |s|<=1), battery (8-text class list incl. out-of-range and non-numeric), sketch name / version (symbolic |s|<=1), heartbeat (4 texts), pre-sleep; then save -> load into an empty registry, field-by-field comparison; values stay symbolic through a structure-preserving json fake (the battery range is decided for all integers), every witness re-run on real JSON text; (2) directly constructed registries: node ids {0,1,254,255}, node/child type sym [-2^40,2^40], heartbeat sym, battery sym [0,100], sleeping symbolic, value types {0,49,-1,2^33}; (3) legacy (pymysensors) layout == native layout; (4) 12 awkward strings (quotes, backslash, control, non-ASCII, astral, lone surrogate) through the real json",
    "thorough": "as quick (2 + 2 received lines, |s|<=1) with symbolic strings |s|<=2 in directly constructed / legacy registries and a choice of two version texts; 3-line histories were measured not to exhaust within the budget and are outside the claim",
}
REALISED = ["node / child ids and value types are concrete (marshmallow's Dict field hashes the keys, which would realise them anyway)", "battery / heartbeat / version texts are class lists"]
STUBS = ["persistence.aiofiles -> in-memory file system", "persistence.json -> structure-preserving fake in symbolic runs (contract: loads(dumps(x)) == x with keys stringified); concrete twin uses the real json", "RecTransport"]
ASSUMPTIONS = ["a directly constructed registry with a battery level outside 0-100 is not a state reachable from received messages (the handler rejects such reports) and is outside the claim"]
MUST_REACH = ["history-roundtrip-ok", "direct-roundtrip-ok", "legacy-equal", "strings-ok"]

VERSION_TEXTS = ["2.2", "2.3.2", "1.4", ""]
AWKWARD = ["", "a\"b", "back\\slash", "tab\there", "nul\x00", "é", "日本", "\U0001f600", "\ud800", "'; DROP", "{\"a\": 1}", " "]


def partitions(tier):
    q = tier == "quick"
    parts = []
    for first in range(8):
        for bh in ((0, 1, 2, 3) if first == 3 else (None,)):
            parts.append({"name": "history-f%d%s" % (first, "" if bh is None else "abcd"[bh]), "fn": "sym_history", "steps": 2, "first": first,
                          "bhalf": bh, "maxlen": 1, "budget": 700 if q else 3600, "cost": 8})
            if False:  # 3-line histories did not exhaust within the thorough budget on this machine (measured): not registered
                parts.append({"name": "history3-f%d%s" % (first, "" if bh is None else "abcd"[bh]), "fn": "sym_history", "steps": 3, "first": first,
                              "bhalf": bh, "maxlen": 1, "budget": 3600, "cost": 20})
    for nid in (0, 1, 254, 255):
        parts.append({"name": "direct-n%d" % nid, "fn": "sym_direct", "node_id": nid, "maxlen": 1 if q else 2, "budget": 500 if q else 2400, "cost": 4})
    parts.append({"name": "legacy", "fn": "sym_legacy", "maxlen": 1 if q else 2, "budget": 500 if q else 2400, "cost": 4})
    parts.append({"name": "strings", "fn": "sym_strings", "budget": 300, "cost": 2})
    return parts


def setup(part):
    stub_repr()


def _roundtrip(inp, nodes, what):
    sym = bool(getattr(inp, "symbolic", False))
    fs = FS({})
    try:
        try:
            save_from(fs, nodes, sym)
        except (Reject, Violation):
            raise
        except Exception as e:  # noqa: BLE001
            raise Violation("%s:save-raises:%s" % (what, type(e).__name__), str(e)[:200])
        res = load_into(fs, sym)
    finally:
        unwire()
    if res[0] != "ok":
        raise Violation("%s:saved-file-rejected:%s" % (what, type(res[1]).__name__), "load of a file written by save failed: %s" % (str(res[1])[:300],))
    compare_snapshots(snapshot(res[1]), snapshot(nodes), what)
    return fs


EVENT_KINDS = ["present-node", "present-child", "set", "battery", "sketch-name", "sketch-version", "heartbeat", "pre-sleep"]


def sym_history(inp, part):
    from aiomysensors.gateway import Gateway

    tr = RecTransport()
    gw = Gateway(tr)
    gw.protocol_version = "2.2"
    L = part["maxlen"]
    # canonical prefix: node 1 presented (so that later reports have a node)
    thorough = False  # the thorough tier keeps the quick dimensions for histories (wider ones did not exhaust in budget)
    lines = [M.line(1, 255, 0, 0, inp.int("ntype", 10, 99) if not thorough else inp.int("ntype", 0, 255), VERSION_TEXTS[inp.pick("nver", len(VERSION_TEXTS))] if thorough else "2.2"),
             M.line(1, 3, 0, 0, inp.int("ctype", 10, 99) if not thorough else inp.int("ctype", 0, 255), inp.str("desc", L, exclude=LINE_TERMINATORS, no_trailing_ws=True))]
    for i in range(part["steps"]):
        if i == 0:
            k = part["first"]
        elif part["steps"] >= 3:
            k = [2, 3, 4, 7][inp.pick("k%d" % i, 4)]  # 3-line histories: set / battery / sketch name / pre-sleep
        else:
            k = inp.pick("k%d" % i, len(EVENT_KINDS))
        kind = EVENT_KINDS[k]
        if kind == "present-node":
            lines.append(M.line(2, 255, 0, 0, 17, "2.0"))
        elif kind == "present-child":
            lines.append(M.line(1, 4, 0, 0, 6, "second"))
        elif kind == "set":
            lines.append(M.line(1, 3, 1, 0, 2, inp.str("pay%d" % i, L, exclude=LINE_TERMINATORS, no_trailing_ws=True)))
        elif kind == "battery":
            bts = BATTERY_TEXTS if (i > 0 or part.get("bhalf") is None) else BATTERY_TEXTS[part["bhalf"] * 2:part["bhalf"] * 2 + 2]
            lines.append(M.line(1, 255, 3, 0, 0, bts[inp.pick("bt%d" % i, len(bts))]))
        elif kind == "sketch-name":
            lines.append(M.line(1, 255, 3, 0, 11, inp.str("sn%d" % i, L, exclude=LINE_TERMINATORS, no_trailing_ws=True)))
        elif kind == "sketch-version":
            lines.append(M.line(1, 255, 3, 0, 12, inp.str("sv%d" % i, L, exclude=LINE_TERMINATORS, no_trailing_ws=True)))
        elif kind == "heartbeat":
            lines.append(M.line(1, 255, 3, 0, 22, HEARTBEAT_TEXTS[inp.pick("ht%d" % i, len(HEARTBEAT_TEXTS))]))
        else:
            lines.append(M.line(1, 255, 3, 0, 32, ""))
    tr.lines.extend(lines)
    agen = gw.listen()
    for _ in lines:
        listen_step(gw)  # errors (rejected reports) are fine: the registry is whatever was reached
    tr.writes.clear()
    _roundtrip(inp, gw.nodes, "history")
    return ["history-roundtrip-ok", len(gw.nodes)]


def _direct_nodes(inp, part):
    from aiomysensors.model.node import Child, Node

    L = part["maxlen"]
    big = 2 ** 40
    nid = part["node_id"]
    thorough = part.get("tier") == "thorough"
    nd = Node(nid, inp.int("ntype", -big, big), VERSION_TEXTS[inp.pick("nver", 2)] if thorough else "2.2",
              sketch_name=inp.str("sn", L), sketch_version="1.0",
              battery_level=inp.int("battery", 0, 100), heartbeat=inp.int("heartbeat", -big, big), sleeping=inp.bool("sleeping"))
    nch = inp.pick("nch", 2)
    L2 = L
    vtypes = [0, 49, -1, 2 ** 33]
    for j in range(nch):
        cid = [254, 0][j]
        ch = Child(cid, inp.int("ctype%d" % j, -big, big), description=inp.str("desc%d" % j, L2) if thorough else "d")
        if inp.bool("hasv%d" % j):
            ch.values[vtypes[inp.pick("vt%d" % j, 4)]] = inp.str("val%d" % j, L2)
        nd.children[cid] = ch
    return {nid: nd}


def sym_direct(inp, part):
    nodes = _direct_nodes(inp, part)
    _roundtrip(inp, nodes, "direct")
    return ["direct-roundtrip-ok", part["node_id"]]


def _to_legacy(doc):
    out = {}
    for k, n in doc.items():
        m = {}
        for f, v in n.items():
            if f == "node_id":
                m["sensor_id"] = v
            elif f == "node_type":
                m["type"] = v
            elif f == "sleeping":
                continue
            elif f == "children":
                cc = {}
                for ck, c in v.items():
                    d = {}
                    for g, x in c.items():
                        d[{"child_id": "id", "child_type": "type"}.get(g, g)] = x
                    cc[ck] = d
                m["children"] = cc
            else:
                m[f] = v
        out[k] = m
    return out


def sym_legacy(inp, part):
    import json as real_json

    from harness.persistkit import wire

    nodes = _direct_nodes(inp, dict(part, node_id=1))
    for nd in nodes.values():
        if nd.sleeping:
            raise Reject  # the legacy layout has no sleeping flag
    nulls = inp.bool("legacy_nulls")
    if nulls:
        # pymysensors writes null for a gateway's type and for unset sketch fields: the native equivalent is
        # node type 18 (gateway) and empty strings
        for nd in nodes.values():
            nd.node_type = 18
            nd.sketch_name = ""
            nd.sketch_version = ""
    sym = bool(getattr(inp, "symbolic", False))
    fs = FS({})
    try:
        save_from(fs, nodes, sym)
        native = fs.files[PATH]
        doc = native.value if isinstance(native, Token) else real_json.loads(native)
        legacy = _to_legacy(doc)
        if nulls:
            for rec in legacy.values():
                rec["type"] = None
                rec["sketch_name"] = None
                rec["sketch_version"] = None
        fs2 = FS({PATH: Token(legacy) if sym else real_json.dumps(legacy)})
        r1 = load_into(fs, sym)
        r2 = load_into(fs2, sym)
    finally:
        unwire()
    if r1[0] != "ok":
        raise Violation("legacy:native-rejected:%s" % type(r1[1]).__name__, str(r1[1])[:200])
    if r2[0] != "ok":
        raise Violation("legacy:legacy-rejected:%s" % type(r2[1]).__name__, str(r2[1])[:200])
    compare_snapshots(snapshot(r2[1]), snapshot(r1[1]), "legacy")
    return ["legacy-equal", 1]


def sym_strings(inp, part):
    from aiomysensors.model.node import Child, Node

    s = AWKWARD[inp.pick("s", len(AWKWARD))]
    where = inp.pick("where", 4)
    nd = Node(1, 17, s if where == 0 else "2.0", sketch_name=s if where == 1 else "")
    ch = Child(2, 6, description=s if where == 2 else "")
    if where == 3:
        ch.values[0] = s
    nd.children[2] = ch
    fs = FS({})
    try:
        try:
            save_from(fs, {1: nd}, False)
        except (Reject, Violation):
            raise
        except Exception as e:  # noqa: BLE001
            raise Violation("strings:save-raises:%s" % type(e).__name__, "%r: %s" % (s, str(e)[:150]))
        text = fs.files[PATH]
        try:
            text.encode("utf-8")
        except UnicodeEncodeError as e:
            raise Violation("strings:file-not-encodable", "saved text for %r cannot be written as UTF-8: %s" % (s, e))
        res = load_into(fs, False)
    finally:
        unwire()
    if res[0] != "ok":
        raise Violation("strings:saved-file-rejected:%s" % type(res[1]).__name__, "%r: %s" % (s, str(res[1])[:200]))
    compare_snapshots(snapshot(res[1]), snapshot({1: nd}), "strings")
    return ["strings-ok", where]
