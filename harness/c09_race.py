"""C09 - no set command is lost when send races with the wake-up flush."""
from __future__ import annotations

from harness.common import RecTransport, Reject, Violation, stub_repr
from harness.stepkit import World
from spec import step_model as M
from sx.sched import Task, Yield, run_all

PROPERTY = "C09"
BOUNDS = {
    "quick": "one listener task flushing B<=2 parked commands (keys (a,1),(a,2), each present or absent) for a woken node, S=1..2 concurrent send tasks with symbolic keys over children {1,2} (overlapping and disjoint), every interleaving at the transport-write suspension points (write suspends before and after handing over the line); then one wake alone (quiescence); versions 2.0 and 2.2; node id sym [10,99]",
    "thorough": "S<=2 senders with B<=3 keys over children {1,2,3}; S=3 senders with B<=2 keys; versions 2.0, 2.1, 2.2",
}
REALISED = []
STUBS = ["RecTransport.write suspends twice (before and after recording the line)", "sx.sched: cooperative scheduler, next task = symbolic index", "symbolic maps", "__repr__ -> constant"]
ASSUMPTIONS = ["asyncio is cooperative: interleavings differ only at awaits that suspend; the handlers await nothing but the transport write",
               "send order = order in which the send calls ran (parking is synchronous)", "payloads are unique per send"]
MUST_REACH = ["raced-overlap", "raced-disjoint", "no-race"]


class SuspendingTransport(RecTransport):
    async def write(self, decoded_message):
        await Yield()
        self.writes.append(decoded_message)
        await Yield()


def partitions(tier):
    q = tier == "quick"
    parts = []
    for v in (("2.0", "2.2") if q else ("2.0", "2.1", "2.2")):
        for s in ((1, 2) if q else (1, 2, 3)):
            nkeys = 2 if (q or s == 3) else 3
            for first in range(nkeys):
                for second in (range(nkeys) if s == 3 else (None,)):
                    parts.append({"name": "race-%s-s%d-k%d%s" % (v, s, first + 1, "" if second is None else "-%d" % (second + 1)), "fn": "sym_race", "version": v,
                                  "senders": s, "nkeys": nkeys, "firstkey": first + 1, "secondkey": None if second is None else second + 1,
                                  "budget": 600 if q else 3600, "cost": 2 + s * s * s})
    return parts


def setup(part):
    stub_repr()


def sym_race(inp, part):
    from aiomysensors.model.message import Message

    v = part["version"]
    w = World(inp, v)
    tr = SuspendingTransport()
    w.gw.transport = tr
    w.tr = tr
    a = inp.int("a", 10, 99)
    w.add_node(a, sleeping=True)
    nk = part["nkeys"]
    for ch in range(1, nk + 1):
        w.add_child(a, ch)
    sent = {}  # child -> list of payloads in send order
    for ch in range(1, nk + 1):
        sent[ch] = []
        if inp.bool("parked%d" % ch):
            # parking is synchronous even on the suspending transport (no write happens)
            co = w.gw.send(Message(a, ch, 1, 0, 2, "old%d" % ch))
            try:
                co.send(None)
                raise Violation("harness:park-suspended", "send to a sleeping node suspended")
            except StopIteration:
                pass
            sent[ch].append("old%d" % ch)
    wake_t = 32 if v == "2.2" else 22
    tr.lines.append(M.line(a, 255, 3, 0, wake_t, "10" if wake_t == 22 else ""))
    agen = w.gw.listen()
    tasks = [Task("listener", agen.__anext__())]
    keys = []
    for i in range(part["senders"]):
        ch = part["firstkey"] if i == 0 else (part["secondkey"] if (i == 1 and part.get("secondkey")) else 1 + inp.pick("key%d" % i, nk))
        keys.append(ch)
        tasks.append(Task("send%d" % i, w.gw.send(Message(a, ch, 1, 0, 2, "s%d" % i))))

    started = set()

    def on_step(t):
        if t.name.startswith("send") and t.name not in started:
            started.add(t.name)
            i = int(t.name[4:])
            sent[keys[i]].append("s%d" % i)

    schedule = run_all(inp, tasks, on_step=on_step)
    for t in tasks:
        if t.error is not None:
            raise Violation("task-raised:%s" % type(t.error).__name__, "%s: %s" % (t.name, str(t.error)[:150]))
    # quiescence: the node wakes once more, alone
    tr.lines.append(M.line(a, 255, 3, 0, wake_t, "10" if wake_t == 22 else ""))
    final = Task("final", agen.__anext__())
    while not final.done:
        final.step()
    if final.error is not None:
        raise Violation("final-wake-raised:%s" % type(final.error).__name__, str(final.error)[:150])
    # per key analysis
    for ch in range(1, nk + 1):
        written = []
        for wr in tr.writes:
            f = wr.rstrip("\n").split(";")
            if len(f) == 6 and f[1] == str(ch) and f[2] == "1":
                written.append(f[5])
        for p in written:
            if p not in sent[ch]:
                raise Violation("wrote-unsent-value", "child %d: wrote %r which was never sent (sent %r)" % (ch, p, sent[ch]))
            n = 0
            for q2 in written:
                if q2 == p:
                    n += 1
            if n > 1:
                raise Violation("wrote-value-twice", "child %d: value %r written %d times (schedule %r)" % (ch, p, n, schedule))
        if sent[ch]:
            if not written or written[-1] != sent[ch][-1]:
                raise Violation("lost-update", "child %d: last value sent %r, writes %r (schedule %r)" % (ch, sent[ch][-1], written, schedule))
    if len(w.gw._message_buffer.set_messages) != 0:
        raise Violation("still-parked-at-quiescence", "%d commands still parked after the final wake" % len(w.gw._message_buffer.set_messages))
    # classify the schedule for the vacuity guard
    li = [i for i, nme in enumerate(schedule) if nme == "listener"]
    raced = any(nme.startswith("send") and li and li[0] < i < li[-1] for i, nme in enumerate(schedule))
    if not raced:
        return ["no-race", schedule]
    overlap = any(sent[ch] and sent[ch][0].startswith("old") and len(sent[ch]) > 1 for ch in sent)
    return ["raced-overlap" if overlap else "raced-disjoint", schedule]
