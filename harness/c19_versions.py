"""C19 - a newer protocol version handles the older protocol's message types identically."""
from __future__ import annotations

from harness.common import LINE_TERMINATORS, VERSIONS, Reject, Violation, run, stub_repr
from harness.stepkit import draw_id, BATTERY_TEXTS, World, build_registry
from spec import step_model as M

PROPERTY = "C19"
BOUNDS = {
    "quick": "the 4 adjacent ordered pairs (1.4,1.5), (1.5,2.0), (2.0,2.1), (2.1,2.2) - equality is transitive and the stated restrictions are nested, so they imply the other 6 pairs (the thorough tier runs 3 of those explicitly): the same pre-state (0..1 node, id sym [10,99], sleeping/reboot symbolic, 0..1 child, 0..1 stored value, 0..1 parked command for a sleeping node, outstanding-request marker symbolic) is built in two real gateways and the same symbolic event is applied to both: received line (command per partition; internal type sym over the OLDER version's table; set/req/presentation type sym [0,9]; payload symbolic |p|<=1 or class list) or a send call (set / internal, buffering flag symbolic); outcome, error attributes, writes, registry and buffers must be equal. Exemptions exactly as stated: for a heartbeat response between {2.0,2.1} and 2.2 only the sleeping flag and the released commands may differ (outcome, errors, heartbeat value still compared); 1.x vs 2.x only with known node/child and without gateway-ready",
    "thorough": "the 4 adjacent pairs and 3 far pairs (1.4,2.0), (1.4,2.2), (2.0,2.2) with the quick dimensions, plus the 4 adjacent pairs with ids sym [0,255] (every digit class; presentation/set/req/stream/send)",
}
REALISED = ["internal type numbers inside the older table are one path per value"]
STUBS = ["RecTransport", "protocol_14.time -> fixed clock", "symbolic maps", "__repr__ -> constant"]
ASSUMPTIONS = ["one step from equal states is the inductive step for equal histories (the complete state - registry, both buffers - is compared after the step)",
               "no reference model: implementation against implementation"]
MUST_REACH = ["same-msg", "same-error", "same-send"]

PAIRS = [(a, b) for i, a in enumerate(VERSIONS) for b in VERSIONS[i + 1:]]


def partitions(tier):
    q = tier == "quick"
    parts = []
    base = {"idlo": 10, "idhi": 99, "tvhi": 9, "maxnodes": 1, "maxch": 1, "sym_reboot": True, "sym_sleep": True}
    wide = dict(base, idlo=0, idhi=255)  # thorough, adjacent pairs: every digit class of the ids
    todo = []
    for old, new in PAIRS:
        adjacent = VERSIONS.index(new) == VERSIONS.index(old) + 1
        if not adjacent and (q or (old, new) not in (("1.4", "2.0"), ("1.4", "2.2"), ("2.0", "2.2"))):
            continue  # equality is transitive and the stated restrictions are nested: adjacent pairs imply the rest; thorough adds 3 far pairs
        todo.append((old, new, base, ""))
        if not q and adjacent:
            todo.append((old, new, wide, "A"))
    for old, new, ids, tag in todo:
        new_name = new + tag
        for cmd in range(5):
            if cmd == 3 and tag == "A":
                continue
            if cmd == 3:
                top = M.INTERNAL_MAX[old]
                for lo_t in range(0, top + 1, 2):
                    hi_t = min(top, lo_t + 1)
                    if lo_t == hi_t == 14 and old in ("1.4", "1.5") and new in ("2.0", "2.1", "2.2"):
                        continue  # gateway-ready is excluded across 1.x -> 2.x: the window would be empty
                    wakes = any(lo_t <= w <= hi_t for w in (22, 32))  # parked commands only matter for the wake types
                    parts.append(dict(ids, name="recv-%s-%s-cmd3-t%d" % (old, new_name, lo_t), fn="sym_recv", old=old, new=new, cmd=3,
                                      tlo=lo_t, thi=hi_t, maxch=0, values=False, sym_reboot=False, noparked=not wakes,
                                      budget=600 if q else 3000, cost=5 if lo_t < 4 else 3))
                continue
            parts.append(dict(ids, name="recv-%s-%s-cmd%d" % (old, new_name, cmd), fn="sym_recv", old=old, new=new, cmd=cmd,
                              sym_reboot=(cmd == 1), sym_sleep=False, noparked=True, budget=600 if q else 3000, cost=3))
        parts.append(dict(ids, name="send-%s-%s" % (old, new_name), fn="sym_send", old=old, new=new, budget=500 if q else 2000, cost=3))
    return parts


def setup(part):
    from aiomysensors.model.protocol import protocol_14

    from harness.c06_reactions import FakeClock

    stub_repr()
    protocol_14.time = FakeClock((2024, 2, 3, 4, 5, 6, 5, 34, -1), (2024, 2, 3, 9, 5, 6, 5, 34, 0))


def _cmp_nodes(g1, g2, what):
    n1, n2 = g1.nodes, g2.nodes
    if len(n1) != len(n2):
        raise Violation("%s:registry-size" % what, "%d vs %d nodes" % (len(n1), len(n2)))
    for k, a in n1.items():
        if k not in n2:
            raise Violation("%s:registry-node" % what, "node %r only under the older version" % (k,))
        b = n2[k]
        for f in ("node_id", "node_type", "protocol_version", "sketch_name", "sketch_version", "battery_level", "heartbeat", "sleeping", "reboot"):
            if getattr(a, f) != getattr(b, f):
                raise Violation("%s:node.%s" % (what, f), "node %r: %r vs %r" % (k, getattr(a, f), getattr(b, f)))
        if len(a.children) != len(b.children):
            raise Violation("%s:children" % what, "node %r: %d vs %d children" % (k, len(a.children), len(b.children)))
        for ck, ca in a.children.items():
            if ck not in b.children:
                raise Violation("%s:children" % what, "node %r child %r only under the older version" % (k, ck))
            cb = b.children[ck]
            if ca.child_id != cb.child_id or ca.child_type != cb.child_type or ca.description != cb.description:
                raise Violation("%s:child" % what, "node %r child %r differs" % (k, ck))
            if len(ca.values) != len(cb.values):
                raise Violation("%s:values" % what, "node %r child %r: %d vs %d values" % (k, ck, len(ca.values), len(cb.values)))
            for tk, va in ca.values.items():
                if cb.values.get(tk) != va:
                    raise Violation("%s:values" % what, "node %r child %r type %r: %r vs %r" % (k, ck, tk, va, cb.values.get(tk)))


def _cmp_buffers(g1, g2, what):
    for name in ("set_messages", "internal_messages"):
        b1, b2 = getattr(g1._message_buffer, name), getattr(g2._message_buffer, name)
        if len(b1) != len(b2):
            raise Violation("%s:buffer.%s" % (what, name), "%d vs %d entries" % (len(b1), len(b2)))
        for k, m in b1.items():
            if k not in b2 or b2[k].payload != m.payload:
                raise Violation("%s:buffer.%s" % (what, name), "entry %r differs" % (k,))


def _cmp_writes(w1, w2, what):
    if len(w1) != len(w2):
        raise Violation("%s:writes" % what, "older wrote %r, newer wrote %r" % (list(w1), list(w2)))
    for a, b in zip(w1, w2):
        if a != b:
            raise Violation("%s:writes" % what, "older wrote %r, newer wrote %r" % (list(w1), list(w2)))


def _twin_worlds(inp, part):
    """Build the same pre-state twice (same symbolic inputs)."""
    worlds = []
    rec = {}
    for v in (part["old"], part["new"]):
        w = World(_Replay(inp, rec), v)
        ids = build_registry(w, w.inp, part)
        w.ids = ids
        worlds.append(w)
        rec["_second"] = True
    return worlds


class _Replay:
    """Hands out each named input once and replays it for the second gateway."""

    def __init__(self, inp, rec):
        self.inp = inp
        self.rec = rec
        self.symbolic = getattr(inp, "symbolic", False)

    def _get(self, kind, name, *a, **kw):
        key = (kind, name)
        if key not in self.rec:
            self.rec[key] = getattr(self.inp, kind)(name, *a, **kw)
        return self.rec[key]

    def int(self, name, lo, hi):
        return self._get("int", name, lo, hi)

    def bool(self, name):
        return self._get("bool", name)

    def pick(self, name, n):
        return self._get("pick", name, n)

    def str(self, name, maxlen, **kw):
        return self._get("str", name, maxlen, **kw)


def sym_recv(inp, part):
    old, new, cmd = part["old"], part["new"], part["cmd"]
    w1, w2 = _twin_worlds(inp, part)
    cross_major = old in ("1.4", "1.5") and new in ("2.0", "2.1", "2.2")
    lo, hi = part["idlo"], part["idhi"]
    n = draw_id(inp, "n", part, lo, hi)
    c = 255 if (hi < 255 and inp.bool("sys")) else draw_id(inp, "c", part, lo, hi)
    hb_exempt = False
    marked = inp.bool("marked")
    parked = False if part.get("noparked") else inp.bool("parked")
    if cmd == 3:
        t = inp.int("t", part["tlo"], part["thi"])
        if c != 255 and not (t == 3 or t == 4):
            raise Reject  # only id request / response may carry another child id
        if cross_major and t == 14:
            raise Reject
        hb_exempt = t == 22 and new == "2.2" and old in ("2.0", "2.1")  # the stated exception, see below
        if t == 0:
            p = BATTERY_TEXTS[inp.pick("bt", 6)]
        elif t == 2:
            p = ["2.2", "1.4", "garbage"][inp.pick("vt", 3)]
        elif t == 22:
            p = ["7", "x"][inp.pick("ht", 2)]
        else:
            p = inp.str("p", 1, exclude=LINE_TERMINATORS, no_trailing_ws=True)
    elif cmd == 4:
        if c != 255:
            raise Reject
        t = inp.int("t", 0, 5)
        p = ""
    else:
        if c == 255 and cmd != 0:
            raise Reject
        if cmd == 0 and c == 255 and n == 0:
            raise Reject
        t = inp.int("t", 0, part["tvhi"])
        p = inp.str("p", 1, exclude=LINE_TERMINATORS, no_trailing_ws=True)
    if cmd == 1:
        # child type variety (per-version tables exist for it): S_TEMP / S_CUSTOM
        ctype = [6, 23][inp.pick("ctype", 2)]
        for w in (w1, w2):
            for nd in w.gw.nodes.values():
                for ch in nd.children.values():
                    ch.child_type = ctype
    line = M.line(n, c, cmd, 0, t, p)
    outs = []
    for w in (w1, w2):
        if marked and w.st.is2():
            w.mark(n)
        if parked and len(w.ids) > 0:
            nd = w.gw.nodes[w.ids[0]]
            if nd.sleeping:
                w.park(w.ids[0], 1, 2, "parked")
        outs.append(w.feed(line))
    (k1, v1, wr1), (k2, v2, wr2) = outs
    if cross_major:
        # only histories that reference no unknown node or child
        if k1 == "err" and type(v1).__name__ in ("MissingNodeError", "MissingChildError"):
            raise Reject
    if marked and w1.st.is2() != w2.st.is2():
        raise Reject
    what = "%s-vs-%s" % (old, new)
    if k1 != k2:
        raise Violation("%s:outcome" % what, "line %r: older %s %r, newer %s %r" % (line, k1, v1, k2, v2))
    if k1 == "err":
        if type(v1).__name__ != type(v2).__name__:
            raise Violation("%s:error-class" % what, "line %r: older %s, newer %s" % (line, type(v1).__name__, type(v2).__name__))
        for attr in ("node_id", "child_id"):
            if getattr(v1, attr, None) != getattr(v2, attr, None):
                raise Violation("%s:error-attr" % what, "line %r: %s %r vs %r" % (line, attr, getattr(v1, attr, None), getattr(v2, attr, None)))
    else:
        for f in ("node_id", "child_id", "command", "ack", "message_type", "payload"):
            if getattr(v1, f) != getattr(v2, f):
                raise Violation("%s:yield" % what, "line %r: yielded %s %r vs %r" % (line, f, getattr(v1, f), getattr(v2, f)))
    if cmd == 3 and hb_exempt and k1 == "msg":
        # exempt: marks the node as sleeping and releases its parked commands in 2.0/2.1 only;
        # everything else (outcome above, heartbeat value, other nodes) must still agree
        for w in (w1, w2):
            for nd in w.gw.nodes.values():
                nd.sleeping = False
        _cmp_nodes(w1.gw, w2.gw, what)
        return ["same-msg", cmd]
    _cmp_writes(wr1, wr2, what)
    _cmp_nodes(w1.gw, w2.gw, what)
    _cmp_buffers(w1.gw, w2.gw, what)
    return ["same-msg" if k1 == "msg" else "same-error", cmd]


def sym_send(inp, part):
    from aiomysensors.model.message import Message

    old, new = part["old"], part["new"]
    w1, w2 = _twin_worlds(inp, part)
    lo, hi = part["idlo"], part["idhi"]
    n = draw_id(inp, "n", part, lo, hi)
    internal = inp.bool("internal")
    c = 255 if internal else draw_id(inp, "c", part, lo, hi)
    t = inp.int("t", 0, M.INTERNAL_MAX[old] if internal else part["tvhi"])
    p = inp.str("p", 1, exclude=LINE_TERMINATORS, no_trailing_ws=True)
    buffering = inp.bool("buffering")
    res = []
    for w in (w1, w2):
        try:
            run(w.gw.send(Message(n, c, 3 if internal else 1, 0, t, p), message_buffer=buffering))
            res.append(("ok", None))
        except (Reject, Violation):
            raise
        except Exception as e:  # noqa: BLE001
            res.append(("err", type(e).__name__))
    what = "%s-vs-%s" % (old, new)
    if res[0] != res[1]:
        raise Violation("%s:send-outcome" % what, "older %r, newer %r" % (res[0], res[1]))
    _cmp_writes(w1.tr.writes, w2.tr.writes, what)
    _cmp_nodes(w1.gw, w2.gw, what)
    _cmp_buffers(w1.gw, w2.gw, what)
    return ["same-send", int(bool(internal))]
