"""C15 - a crash during save never destroys the previously saved registry."""
from __future__ import annotations

from harness.common import Reject, Violation, stub_repr
from harness.persistkit import PATH, compare_snapshots, load_into, save_from, snapshot, unwire
from sx.fsmodel import FS, Crashed

PROPERTY = "C15"
BOUNDS = {
    "quick": "old and new registry from a family of 4 (empty; one node; one node with child and value; two nodes), all 16 ordered pairs; crash index symbolic over the file-system operations the real save issues (open/truncate, write, close; replace/rename/fsync if the code uses them) plus 'no crash'; for a crash with unflushed data the surviving prefix length is symbolic in [0,len] (realised by the JSON parser); load on the post-crash disk",
    "thorough": "same (the space is exhausted in the quick tier)",
}
REALISED = ["the surviving prefix length is realised when the text is parsed (one path per length)"]
STUBS = ["persistence.aiofiles / persistence.os / aiofiles.os -> in-memory file system with crash semantics (sx/fsmodel.py): open('w') truncates at once, written data is buffered until close, any prefix may have reached the disk, after the crash nothing changes the disk"]
ASSUMPTIONS = ["process death, not power loss: data handed to the OS by close() is considered durable", "real json"]
MUST_REACH = ["old", "new"]


def partitions(tier):
    parts = []
    for o in range(4):
        for n in range(4):
            parts.append({"name": "crash-old%d-new%d" % (o, n), "fn": "sym_crash", "old": o, "new": n, "budget": 600, "cost": 3 + n, "max_fail_paths": 100000, "max_failures": 50})
    return parts


def setup(part):
    stub_repr()


def family(i):
    from aiomysensors.model.node import Child, Node

    if i == 0:
        return {}
    if i == 1:
        return {1: Node(1, 17, "2.0", sketch_name="one")}
    if i == 2:
        nd = Node(1, 17, "2.0", sketch_name="one", battery_level=80)
        nd.children[3] = Child(3, 6, description="t", values={0: "21.5"})
        return {1: nd}
    return {1: Node(1, 17, "2.0", sketch_name="one"), 2: Node(2, 18, "2.2", sleeping=True)}


def sym_crash(inp, part):
    old, new = family(part["old"]), family(part["new"])
    try:
        fs = FS({})
        save_from(fs, old, False)
        base = dict(fs.files)
        dry = FS(dict(base))
        save_from(dry, new, False)
        nops = len(dry.ops)
        k = inp.int("crash_before_op", 0, nops)
        fs = FS(dict(base), crash_at=(None if k == nops else k), prefix_len=lambda n: inp.int("surviving_prefix", 0, n))
        last = "start"
        try:
            save_from(fs, new, False)
        except Crashed:
            pass
        if fs.ops:
            last = fs.ops[-1].split(":")[0]
        if k == nops:
            last = "completed"
        disk = FS(dict(fs.files))
        res = load_into(disk, False)
    finally:
        unwire()
    so, sn = snapshot(old), snapshot(new)
    if res[0] != "ok":
        raise Violation("crash-after-%s:unreadable:%s" % (last, type(res[1]).__name__),
                        "crash after %r left a file that load rejects: %s (disk: %r)" % (fs.ops, str(res[1])[:120], dict(fs.files)))
    got = snapshot(res[1])
    is_old = _same(got, so)
    is_new = _same(got, sn)
    if not (is_old or is_new):
        kind = "loads-empty-registry" if len(got) == 0 else "loads-other-registry"
        raise Violation("crash-after-%s:%s" % (last, kind), "crash after %r: the file loads to %d nodes, neither the old (%d) nor the new (%d) registry" % (fs.ops, len(got), len(so), len(sn)))
    return ["new" if is_new and not is_old else "old", last]


def _same(a, b):
    try:
        compare_snapshots(a, b, "x")
        compare_snapshots(b, a, "x")
    except Violation:
        return False
    return True
