"""C18 - the MQTT transport maps topics and lines one-to-one and never goes silently deaf."""
from __future__ import annotations

import asyncio

from harness.c01_codec import wellformed
from harness.common import LINE_TERMINATORS, Reject, Violation, run, stub_repr
from spec import step_model as M
from sx import vloop

PROPERTY = "C18"
BOUNDS = {
    "quick": "(a) mapping: node,child sym [0,255], command per partition, ack sym [0,1], type sym [0,99], payload symbolic |p|<=2 (';', '/', non-ASCII allowed; no line terminator / trailing whitespace), in/out prefixes from {'', 'a', 'a/b', '/', 'mygateway1-out'}: write -> published topic/QoS/payload; echo under the in-prefix -> read -> MessageSchema.load gives the same message; every in-topic matches one of the five subscriptions (MQTT wildcard semantics); (b) MQTTClient on a fake broker client, real event loop: histories of <= 3 events in {message, undecodable payload, broker error} with the reads interleaved; a backlog of 1/7/150/1100 messages arriving before the first read; connect -> disconnect at a symbolic moment; publish / subscribe / connect faults",
    "thorough": "type sym [-3,100000], |p|<=3, one symbolic prefix character, histories of <= 4 events",
}
REALISED = ["prefixes are a class list (fully symbolic prefixes did not exhaust in the design probe)", "event histories are forked into concrete sequences"]
STUBS = ["aiomqtt.Client -> FakeBrokerClient (messages iterator blocks when idle and may raise MqttError; publish/subscribe/enter/exit may raise MqttError)", "recording subclass of MQTTTransport for the pure mapping functions"]
ASSUMPTIONS = ["after a broker error (MqttError from the message iterator) the client's reception has ended loudly: the error is delivered once, later broker traffic is not expected",
               "an empty payload is published without a payload argument (broker delivers b'')"]
MUST_REACH = ["mapping-ok", "history-ok", "disconnect-ok", "publish-fault-ok"]

PREFIXES = ["", "a", "a/b", "/", "mygateway1-out"]


def partitions(tier):
    q = tier == "quick"
    parts = []
    for cmd in range(5):
        for pi in range(len(PREFIXES)):
            if q and pi not in (1, 2, 4) and cmd != 1:
                continue
            for ack in (0, 1):
                parts.append({"name": "mapping-cmd%d-prefix%d-ack%d" % (cmd, pi, ack), "fn": "sym_mapping", "cmd": cmd, "prefix": pi, "ack": ack,
                              "maxlen": 2 if q else 3, "tlo": 0 if q else -3, "thi": 99 if q else 100000, "budget": 600 if q else 3000, "cost": 5})
    for first in range(3):
        parts.append({"name": "history-first%d" % first, "fn": "sym_history", "first": first, "steps": 3 if q else 4, "budget": 600 if q else 3000, "cost": 4})
    parts.append({"name": "lifecycle", "fn": "sym_lifecycle", "budget": 300, "cost": 2})
    parts.append({"name": "backlog", "fn": "sym_backlog", "budget": 300, "cost": 2})
    return parts


def setup(part):
    stub_repr()


def mqtt_match(sub, topic):
    s, t = sub.split("/"), topic.split("/")
    if len(s) != len(t):
        return False
    for a, b in zip(s, t):
        if a != "+" and a != b:
            return False
    return True


def _recording(in_prefix, out_prefix):
    from aiomysensors.transport.mqtt import MQTTTransport

    class Rec(MQTTTransport):
        def __init__(self):
            super().__init__(in_prefix=in_prefix, out_prefix=out_prefix)
            self.published = []
            self.subs = []

        async def _connect(self):
            pass

        async def _disconnect(self):
            pass

        async def _publish(self, topic, payload, qos):
            self.published.append((topic, payload, qos))

        async def _subscribe(self, topic, qos):
            self.subs.append((topic, qos))

    return Rec()


def sym_mapping(inp, part):
    from aiomysensors.model.message import Message, MessageSchema
    from aiomysensors.model.protocol import get_protocol

    cmd = part["cmd"]
    n = inp.int("n", 0, 255)
    c = inp.int("c", 0, 255)
    ack = part["ack"]
    t = inp.int("t", part["tlo"], part["thi"])
    p = inp.str("p", part["maxlen"], exclude=LINE_TERMINATORS, no_trailing_ws=True)
    if not wellformed(n, c, cmd, ack, t):
        raise Reject
    inp_, outp = PREFIXES[part["prefix"]], PREFIXES[(part["prefix"] + 1) % len(PREFIXES)]
    tr = _recording(inp_, outp)
    schema = MessageSchema()
    schema.set_protocol(get_protocol("2.2"))
    line = schema.dump(Message(n, c, cmd, ack, t, p))
    try:
        run(tr.write(line))
    except (Reject, Violation):
        raise
    except Exception as e:  # noqa: BLE001
        raise Violation("write-raises:%s" % type(e).__name__, "write(%r) raised %s: %s" % (line, type(e).__name__, str(e)[:120]))
    if len(tr.published) != 1:
        raise Violation("publish-count", "write published %d messages" % len(tr.published))
    topic, payload, qos = tr.published[0]
    want_topic = outp + "/" + str(n) + "/" + str(c) + "/" + str(cmd) + "/" + str(ack) + "/" + str(t)
    if topic != want_topic:
        raise Violation("wrong-topic", "write(%r) published to %r, expected %r" % (line, topic, want_topic))
    if qos != ack:
        raise Violation("wrong-qos", "write(%r) published with QoS %r, ack flag is %r" % (line, qos, ack))
    if payload != p:
        raise Violation("payload-changed", "write(%r) published payload %r, expected %r" % (line, payload, p))
    # subscriptions cover the in-topic
    vloop.run(tr.connect)
    in_topic = inp_ + "/" + str(n) + "/" + str(c) + "/" + str(cmd) + "/" + str(ack) + "/" + str(t)
    want_subs = [inp_ + "/+/+/" + str(k) + "/+/+" for k in range(5)]
    got_subs = [s for s, _q in tr.subs]
    if sorted(got_subs) != sorted(want_subs):
        raise Violation("wrong-subscriptions", "subscribed to %r, expected %r" % (got_subs, want_subs))
    hits = 0
    for s in got_subs:
        if s.split("/")[-3] == str(cmd):
            hits += 1
    if hits != 1 or not mqtt_match(inp_ + "/+/+/" + str(cmd) + "/+/+", inp_ + "/0/0/" + str(cmd) + "/0/0"):
        raise Violation("subscription-miss", "no subscription matches %r" % (in_topic,))
    # echo under the in-prefix and read back
    tr._receive(in_topic, payload)
    try:
        back = run(tr.read())
        m = schema.load(back)
    except (Reject, Violation):
        raise
    except Exception as e:  # noqa: BLE001
        raise Violation("echo-raises:%s" % type(e).__name__, "echo of %r raised %s: %s" % (line, type(e).__name__, str(e)[:120]))
    want_line = str(n) + ";" + str(c) + ";" + str(cmd) + ";" + str(ack) + ";" + str(t) + ";" + p
    if back != want_line:
        raise Violation("echo-line", "echo read back as %r, expected %r" % (back, want_line))
    if (m.node_id, m.child_id, m.command, m.ack, m.message_type) != (n, c, cmd, ack, t) or m.payload != p:
        raise Violation("echo-message", "echo of %r decoded to another message" % (line,))
    return ["mapping-ok", cmd]


EVENTS = ["message", "undecodable", "broker-error"]


def sym_history(inp, part):
    from aiomysensors.exceptions import TransportError

    from harness import mqttkit

    kinds = [part["first"]] + [inp.pick("ev%d" % i, 3) for i in range(1, part["steps"])]
    nev = 1 + inp.pick("nev", part["steps"])
    kinds = kinds[:nev]
    read_early = bool(inp.bool("read_before_delivery"))
    expected = []
    for i, k in enumerate(kinds):
        if k == 0:
            expected.append(("line", "1;%d;1;0;2;v%d" % (i, i)))
        else:
            expected.append(("err", "TransportError"))
        if k == 2:
            break
    got = []
    res = {}

    async def main():
        tr, restore = mqttkit.make_client(in_prefix="in/x", out_prefix="out")
        try:
            await tr.connect()

            async def consume():
                for _ in range(len(expected)):
                    try:
                        got.append(("line", await tr.read()))
                    except TransportError:
                        got.append(("err", "TransportError"))
                    except asyncio.CancelledError:
                        raise
                    except Exception as e:  # noqa: BLE001
                        got.append(("foreign", type(e).__name__ + ": " + str(e)[:80]))

            task = asyncio.create_task(consume()) if read_early else None
            await asyncio.sleep(0)
            for i, k in enumerate(kinds):
                if k == 0:
                    tr.fake.deliver("in/x/1/%d/1/0/2" % i, b"v%d" % i)
                elif k == 1:
                    tr.fake.deliver("in/x/1/%d/1/0/2" % i, b"\xff\xfe")
                else:
                    tr.fake.fail()
                if inp.bool("yield_after%d" % i):
                    await asyncio.sleep(0)
            if task is None:
                task = asyncio.create_task(consume())
            for _ in range(10 * (len(expected) + 1)):
                if task.done():
                    break
                await asyncio.sleep(0)
            if not task.done():
                task.cancel()
                try:
                    await task
                except asyncio.CancelledError:
                    pass
                got.append(("blocked-forever", len(got)))
            try:
                await tr.disconnect()
                res["disc"] = "ok"
            except asyncio.CancelledError:
                res["disc"] = "CancelledError"
            except Exception as e:  # noqa: BLE001
                res["disc"] = type(e).__name__
        finally:
            setattr(restore[0], restore[1], restore[2])

    try:
        vloop.run(main)
    except vloop.Deadlock as e:
        raise Violation("deadlock", str(e))
    for g in got:
        if g[0] == "foreign":
            raise Violation("read-foreign-exception:%s" % g[1].split(":")[0], "events %r: read raised %s" % ([EVENTS[k] for k in kinds], g[1]))
        if g[0] == "blocked-forever":
            raise Violation("silently-deaf", "events %r: reads delivered %r then blocked forever, expected %r" % ([EVENTS[k] for k in kinds], got[:-1], expected))
    if got != expected:
        raise Violation("wrong-delivery", "events %r: reads gave %r, expected %r" % ([EVENTS[k] for k in kinds], got, expected))
    if res.get("disc") != "ok":
        raise Violation("disconnect-raises:%s" % res.get("disc"), "disconnect after events %r raised %s" % ([EVENTS[k] for k in kinds], res.get("disc")))
    return ["history-ok", len(kinds)]


def sym_backlog(inp, part):
    """The application may be slow: N broker messages arrive before the first read; all N are then read,
    in order, exactly once, and reception is still alive afterwards."""
    from aiomysensors.exceptions import TransportError

    from harness import mqttkit

    n = [1, 7, 150, 1100][inp.pick("backlog", 4)]
    res = {}

    async def main():
        tr, restore = mqttkit.make_client(in_prefix="in", out_prefix="out")
        try:
            await tr.connect()
            await asyncio.sleep(0)
            for i in range(n):
                tr.fake.deliver("in/1/%d/1/0/2" % (i % 250), b"v%d" % i)
                if i % 64 == 0:
                    await asyncio.sleep(0)
            for _ in range(3):
                await asyncio.sleep(0)
            got = []

            async def consume():
                for _ in range(n + 1):
                    got.append(await tr.read())

            tr.fake.deliver("in/9/9/1/0/2", b"last")
            task = asyncio.create_task(consume())
            for _ in range(20 + n):
                if task.done():
                    break
                await asyncio.sleep(0)
            if not task.done():
                task.cancel()
                try:
                    await task
                except (asyncio.CancelledError, Exception):  # noqa: BLE001
                    pass
                res["hung"] = len(got)
            elif task.exception() is not None:
                res["exc"] = repr(task.exception())
            res["got"] = got
            try:
                await tr.disconnect()
            except BaseException as e:  # noqa: BLE001
                res["disc"] = type(e).__name__
        finally:
            setattr(restore[0], restore[1], restore[2])

    try:
        vloop.run(main)
    except vloop.Deadlock as e:
        raise Violation("deadlock", str(e))
    if "hung" in res:
        raise Violation("silently-deaf", "%d messages were waiting; read #%d never returned" % (n + 1, res["hung"] + 1))
    if "exc" in res:
        raise Violation("backlog-read-raises", res["exc"])
    want = ["1;%d;1;0;2;v%d" % (i % 250, i) for i in range(n)] + ["9;9;1;0;2;last"]
    if res["got"] != want:
        raise Violation("wrong-delivery", "backlog of %d: reads differ from the arrival order (first difference at %d)" % (n, next((i for i, (a, b) in enumerate(zip(res["got"], want)) if a != b), -1)))
    if "disc" in res:
        raise Violation("disconnect-raises:%s" % res["disc"], "disconnect after a backlog of %d raised" % n)
    return ["history-ok", n]


def sym_lifecycle(inp, part):
    """connect -> (k turns) -> disconnect completes without raising; faults map to transport errors."""
    from aiomysensors.exceptions import TransportError, TransportFailedError

    from harness import mqttkit

    case = inp.pick("case", 5)
    k = inp.pick("turns", 4)
    res = {}

    async def main():
        if case == 0:
            tr, restore = mqttkit.make_client()
        elif case == 1:
            tr, restore = mqttkit.make_client(connect_fault=True)
        elif case == 2:
            tr, restore = mqttkit.make_client(disconnect_fault=True)
        elif case == 3:
            tr, restore = mqttkit.make_client(publish_fault=lambda i: True)
        else:
            tr, restore = mqttkit.make_client(subscribe_fault=True)
        try:
            try:
                await tr.connect()
                res["connect"] = "ok"
            except TransportError:
                res["connect"] = "TransportError"
            except asyncio.CancelledError:
                res["connect"] = "CancelledError"
            except Exception as e:  # noqa: BLE001
                res["connect"] = "foreign:" + type(e).__name__
            if res["connect"] == "ok" or case == 4:
                for _ in range(k):
                    await asyncio.sleep(0)
                if case == 3:
                    try:
                        await tr.write("1;1;1;1;2;x\n")
                        res["write"] = "ok"
                    except TransportFailedError:
                        res["write"] = "TransportFailedError"
                    except Exception as e:  # noqa: BLE001
                        res["write"] = "foreign:" + type(e).__name__
                try:
                    await tr.disconnect()
                    res["disconnect"] = "ok"
                except asyncio.CancelledError:
                    res["disconnect"] = "CancelledError"
                except Exception as e:  # noqa: BLE001
                    res["disconnect"] = "raised:" + type(e).__name__
            me = asyncio.current_task()
            for _ in range(3):
                await asyncio.sleep(0)
            res["left"] = len([t for t in asyncio.all_tasks() if t is not me and not t.done()])
        finally:
            setattr(restore[0], restore[1], restore[2])

    try:
        vloop.run(main)
    except vloop.Deadlock as e:
        raise Violation("deadlock", str(e))
    if case in (0, 2, 3):
        if res.get("connect") != "ok":
            raise Violation("connect:%s" % res.get("connect"), "connect gave %s" % res.get("connect"))
        if res.get("disconnect") != "ok":
            raise Violation("disconnect:%s" % res.get("disconnect"), "connect then disconnect after %d turns: %s" % (k, res.get("disconnect")))
        if res.get("left"):
            raise Violation("task-left-behind", "%d tasks left after disconnect" % res["left"])
    if case == 1 and res.get("connect") != "TransportError":
        raise Violation("connect-fault:%s" % res.get("connect"), "broker refused: connect gave %s" % res.get("connect"))
    if case == 4 and res.get("connect") != "TransportError":
        raise Violation("subscribe-fault:%s" % res.get("connect"), "subscribe failed: connect gave %s" % res.get("connect"))
    if case == 3:
        if res.get("write") != "TransportFailedError":
            raise Violation("publish-fault:%s" % res.get("write"), "publish failed: write gave %s" % res.get("write"))
        return ["publish-fault-ok", k]
    return ["disconnect-ok", case]
