"""C11 - node ids handed out are fresh, in range, and never handed out twice."""
from __future__ import annotations

from harness.common import VERSIONS, Reject, Violation, listen_step, mk_add_node, new_gateway, stub_repr
from spec import step_model as M

PROPERTY = "C11"
BOUNDS = {
    "quick": "registry of m sym [0,3] nodes with distinct ids sym [0,255] (empty, sparse, dense, containing 0/254/255 are all instances); request node,child sym [0,255]; one request (5 versions, and with the gateway's version still unknown) and two requests with an optional presentation of the new node in between (registry m<=2; versions 1.4, 2.0, 2.2)",
    "thorough": "m sym [0,4]; two-request histories with m<=3 on all five versions",
}
REALISED = []
STUBS = ["RecTransport with an on-write probe (registry membership observed at the moment of the write)", "symbolic maps", "__repr__ -> constant"]
ASSUMPTIONS = ["registries are built directly (restored from persistence / presented / handed out earlier all end as entries of Gateway.nodes)",
               "when the highest registered id is >= 254 either the too-many-nodes error or a fresh in-range id is acceptable (the statement only forbids the error while an id above the highest is free)"]
MUST_REACH = ["id-ok", "too-many", "two-ids-ok"]


def partitions(tier):
    q = tier == "quick"
    parts = []
    for v in VERSIONS:
        for m in range(0, 4 if q else 5):
            parts.append({"name": "one-%s-m%d" % (v, m), "fn": "sym_one", "version": v, "m": m, "budget": 500 if q else 3000, "cost": 1 + m * m})
        if v == "1.4":
            for m in range(0, 3):
                parts.append({"name": "one-unknown-m%d" % m, "fn": "sym_one", "version": None, "m": m, "budget": 500 if q else 3000, "cost": 1 + m * m})
        if not q or v in ("1.4", "2.0", "2.2"):
            for m in range(0, 3 if q else 4):
                parts.append({"name": "two-%s-m%d" % (v, m), "fn": "sym_two", "version": v, "m": m, "budget": 500 if q else 3000, "cost": 2 + m * m})
    return parts


def setup(part):
    stub_repr()


def _registry(inp, gw, m):
    ids = []
    for i in range(m):
        a = inp.int("a%d" % i, 0, 255)
        for b in ids:
            if a == b:
                raise Reject
        ids.append(a)
        mk_add_node(inp, gw, a)
    return ids


def _request(inp, gw, tr, ids, n, c, tag):
    """Feed one id request; check everything the statement says; return the id or None."""
    seen = {}

    def probe(line):
        seen["count_at_write"] = len(gw.nodes)

    tr.on_write = probe
    tr.lines.append(M.line(n, c, 3, 0, 3, ""))
    before = len(tr.writes)
    kind, val = listen_step(gw)
    tr.on_write = None
    # while the gateway's version is unknown every message is followed by a version query (C06): not our subject
    writes = [w for w in tr.writes[before:] if not (gw.protocol_version is None and w == "0;255;3;0;2;\n")]
    top = -1
    for a in ids:
        if a > top:
            top = a
    if kind == "err":
        if type(val).__name__ != "TooManyNodesError":
            raise Violation("%s:wrong-error:%s" % (tag, type(val).__name__), str(val)[:150])
        if top < 254:
            raise Violation("%s:too-many-while-free" % tag, "TooManyNodesError although highest registered id is %r" % (top,))
        if len(writes) != 0:
            raise Violation("%s:write-on-error" % tag, "wrote %r although the request failed" % (writes,))
        if len(gw.nodes) != len(ids):
            raise Violation("%s:registry-changed-on-error" % tag, "registry has %d nodes, had %d" % (len(gw.nodes), len(ids)))
        for a in ids:
            if a not in gw.nodes:
                raise Violation("%s:registry-changed-on-error" % tag, "node %r vanished" % (a,))
        return None
    if len(writes) != 1:
        raise Violation("%s:write-count" % tag, "id request produced writes %r" % (writes,))
    fields = writes[0].rstrip("\n").split(";")
    if len(fields) != 6 or fields[0] != str(n) or fields[1] != str(c) or fields[2] != "3" or fields[3] != "0" or fields[4] != "4":
        raise Violation("%s:response-address" % tag, "response %r is not addressed like the request %r;%r;3;0;4" % (writes[0], n, c))
    try:
        new_id = int(fields[5])
    except ValueError:
        raise Violation("%s:response-payload" % tag, "payload %r is not an id" % (fields[5],))
    if fields[5] != str(new_id):
        raise Violation("%s:response-payload" % tag, "payload %r is not a plain decimal id" % (fields[5],))
    if not (1 <= new_id <= 254):
        raise Violation("%s:id-out-of-range" % tag, "handed out id %r" % (new_id,))
    for a in ids:
        if a == new_id:
            raise Violation("%s:id-not-fresh" % tag, "handed out id %r which is already registered" % (new_id,))
    if new_id not in gw.nodes:
        raise Violation("%s:id-not-registered" % tag, "id %r handed out but not registered" % (new_id,))
    if seen.get("count_at_write") != len(ids) + 1:
        raise Violation("%s:registered-after-write" % tag, "registry had %r nodes when the answer was written, expected %d" % (seen.get("count_at_write"), len(ids) + 1))
    if len(gw.nodes) != len(ids) + 1:
        raise Violation("%s:registry-size" % tag, "registry has %d nodes after the request, expected %d" % (len(gw.nodes), len(ids) + 1))
    for a in ids:
        if a not in gw.nodes:
            raise Violation("%s:registry-lost-node" % tag, "node %r vanished" % (a,))
    if kind == "msg":
        m = val
        if m.node_id != n or m.child_id != c or m.command != 3 or m.message_type != 3:
            raise Violation("%s:yield" % tag, "yielded message differs from the request")
    return new_id


def sym_one(inp, part):
    gw, tr = new_gateway(inp, part["version"])
    ids = _registry(inp, gw, part["m"])
    n = inp.int("n", 0, 255)
    c = inp.int("c", 0, 255)
    r = _request(inp, gw, tr, ids, n, c, "one")
    return ["too-many" if r is None else "id-ok", part["m"]]


def sym_two(inp, part):
    gw, tr = new_gateway(inp, part["version"])
    ids = _registry(inp, gw, part["m"])
    n = inp.int("n", 200, 255)
    r1 = _request(inp, gw, tr, ids, n, 255, "first")
    if r1 is None:
        return ["too-many", part["m"]]
    if inp.bool("present"):
        tr.lines.append(M.line(r1, 255, 0, 0, 17, "2.0"))
        kind, val = listen_step(gw)
        if kind == "err":
            raise Violation("two:presentation-failed:%s" % type(val).__name__, str(val)[:150])
    r2 = _request(inp, gw, tr, ids + [r1], n, 255, "second")
    if r2 is None:
        return ["too-many-second", part["m"]]
    if r1 == r2:
        raise Violation("two:same-id-twice", "two requests both received id %r" % (r1,))
    return ["two-ids-ok", part["m"]]
