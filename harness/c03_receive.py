"""C03 - the receive path raises only library errors, whatever arrives on the wire."""
from __future__ import annotations

from harness.common import LINE_TERMINATORS, VERSIONS, Reject, Violation, exc_class, listen_step, run, stub_repr
from harness.stepkit import draw_id, World
from spec import step_model as M

PROPERTY = "C03"
BOUNDS = {
    "quick": "(ii) well-formed lines: node sym [10,99] (known or unknown node, sleeping or not), child sym [10,99] or 255 (known or unknown child), all 5 commands, internal/stream type sym [-2,99999] with payload '1', internal types {battery, version, heartbeat, sketch name} x a 24-text payload class list (numbers, non-numbers, version texts, empty, huge), set/req/presentation type sym [0,9] with symbolic |p|<=1; version known (5 versions) or unknown; (i) malformed lines: field count sym [0,8], one numeric position replaced by one of 10 class texts or an out-of-range integer; after every error the same gateway handles '0;255;3;0;9;x' normally; (v) a Gateway on a real StreamTransport: set with payload bytes over {3b,41,80,c3,a9,ff} |b|<=2, then a req that echoes the stored value through the encoding writer; (iv) StreamTransport.read: byte strings over 23 UTF-8 class representatives |b|<=2 and over an 8-byte alphabet |b|<=3 through a duck-typed reader (decode totality; CrossHair cannot keep bytes symbolic through decode, so these are enumerated), and the real asyncio.StreamReader over the alphabet {0a,0d,3b,41,80,c3,a9,ff} |b|<=3 with/without EOF",
    "thorough": "as quick with ids sym [0,255], |b|<=4, plus a non-deciding hunt: raw symbolic line |line|<=6 (300 s)",
}
REALISED = ["byte strings for decode totality are enumerated over class alphabets", "payload class list for internal messages (float(), int(), AwesomeVersion are executed on concrete texts)", "bytes fed to the real StreamReader are realised at bytearray.extend"]
STUBS = ["RecTransport", "duck-typed reader object for decode totality", "symbolic maps", "__repr__ -> constant"]
ASSUMPTIONS = ["library error = subclass of AIOMySensorsError", "internal payloads outside the class list are covered only through the symbolic |p|<=1 payload of the other commands and the thorough hunt"]
MUST_REACH = ["msg", "lib:InvalidMessageError", "lib:UnsupportedMessageError", "lib:MissingNodeError", "stream-line", "lib:TransportReadError"]

PAYLOADS = ["55", "0", "100", "abc", "", "nan", "inf", "-inf", "1e400", "150", "-3", " 42", "4_2", "٣", "1.5",
            "2.2", "2.2.0", "garbage", "2", "v2.1", "1.4-beta", "latest", "9" * 60, "٣.٤"]
CLASS_TEXTS = ["", "abc", "1.0", " ", "0x1", "1e2", "٣", " 7", "1_0", "+5", "²"]
PROBE = "0;255;3;0;9;x\n"


def partitions(tier):
    q = tier == "quick"
    parts = []
    ids = {"idlo": 10 if q else 0, "idhi": 99 if q else 255}
    for v in VERSIONS:
        for known in (True, False):
            if not known and v != "1.4":
                continue
            tag = v if known else "unknown"
            for cmd in range(5):
                if cmd == 3:
                    parts.append(dict(ids, name="wf-%s-cmd3-types" % tag, fn="sym_wellformed", version=v, known=known, cmd=3, mode="types",
                                      budget=600 if q else 3000, cost=4))
                    for g in range(4):
                        parts.append(dict(ids, name="wf-%s-cmd3-payload%d" % (tag, g), fn="sym_wellformed", version=v, known=known, cmd=3, mode="payload", group=g,
                                          budget=600 if q else 3000, cost=4))
                else:
                    parts.append(dict(ids, name="wf-%s-cmd%d" % (tag, cmd), fn="sym_wellformed", version=v, known=known, cmd=cmd,
                                      budget=600 if q else 3000, cost=3))
        parts.append({"name": "malformed-%s" % v, "fn": "sym_malformed", "version": v, "budget": 500 if q else 2000, "cost": 4})
    parts.append({"name": "decode-duck-classes", "fn": "sym_decode", "alphabet": "utf8classes", "maxlen": 2 if q else 3, "budget": 500 if q else 3000, "cost": 5})
    parts.append({"name": "decode-duck-small", "fn": "sym_decode", "alphabet": "small", "maxlen": 3 if q else 4, "budget": 500 if q else 3000, "cost": 5})
    for eof in (0, 1):
        parts.append({"name": "streamreader-eof%d" % eof, "fn": "sym_streamreader", "maxlen": 3 if q else 4, "eof": eof, "budget": 500 if q else 3000, "cost": 5})
    parts.append({"name": "stream-gateway", "fn": "sym_stream_gateway", "maxlen": 2 if q else 3, "budget": 500 if q else 2000, "cost": 4})
    if not q:
        parts.append({"name": "hunt-rawline", "fn": "sym_rawline", "maxlen": 6, "budget": 300, "deciding": False, "cost": 5})
    return parts


def setup(part):
    stub_repr()


def _classify(kind, val, what):
    from aiomysensors.exceptions import AIOMySensorsError

    if kind == "msg":
        return "msg"
    if not isinstance(val, AIOMySensorsError):
        raise Violation("foreign-exception:%s" % type(val).__name__, "listen(%r) raised %s: %s" % (what, type(val).__name__, str(val)[:200]))
    return "lib:" + type(val).__name__


def _still_usable(w, what):
    kind, val, _wr = w.feed(PROBE)
    if kind != "msg":
        raise Violation("unusable-after-error:%s" % type(val).__name__, "after %s the next well-formed line raised %s: %s" % (what, type(val).__name__, str(val)[:150]))
    m = val
    if m.node_id != 0 or m.child_id != 255 or m.command != 3 or m.message_type != 9 or m.payload != "x":
        raise Violation("unusable-after-error:wrong-message", "after %s the next line decoded wrongly" % what)


def sym_wellformed(inp, part):
    v, known, cmd = part["version"], part["known"], part["cmd"]
    w = World(inp, v, known=known)
    lo, hi = part["idlo"], part["idhi"]
    n = draw_id(inp, "n", part, lo, hi)
    shape = inp.pick("shape", 3)  # node unknown / known / known + child
    if shape >= 1:
        w.add_node(n, sleeping=inp.bool("sleeping"))
    cc = draw_id(inp, "cc", part, lo, min(hi, 254), child=True)
    if shape == 2:
        w.add_child(n, cc)
    c = 255 if inp.bool("sys") else draw_id(inp, "c", part, lo, hi)
    if cmd == 3 or cmd == 4:
        if c != 255:
            raise Reject
        if cmd == 3 and part["mode"] == "payload":
            t = [0, 2, 22, 11][inp.pick("ti", 4)]
            sel = PAYLOADS[part["group"] * 6:(part["group"] + 1) * 6]
            p = sel[inp.pick("pl", len(sel))]
        else:
            t = inp.int("t", -2, 99999)
            p = "1" if cmd == 3 else ""
    else:
        if c == 255 and cmd != 0:
            raise Reject
        t = inp.int("t", 0, 9)
        if cmd == 0 and c == 255 and n == 0:
            # gateway presentation = version report: version texts are a class list (a symbolic string
            # cannot go through functools.cache / the version parser)
            vt = PAYLOADS[14:]
            p = vt[inp.pick("vt", len(vt))]
        else:
            p = inp.str("p", 1, exclude=LINE_TERMINATORS, no_trailing_ws=True)
    line = M.line(n, c, cmd, 0, t, p)
    kind, val, _wr = w.feed(line)
    r = _classify(kind, val, line)
    if r != "msg":
        _still_usable(w, r)
    return [r, cmd]


def sym_malformed(inp, part):
    w = World(inp, part["version"])
    n = inp.int("n", 0, 255)
    which = inp.pick("which", 3)
    if which == 0:
        k = inp.pick("k", 9)
        line = ";".join([str(n), "3", "1", "0", "2", "a", "b", "c"][:k]) + "\n"
    elif which == 1:
        pos = inp.pick("pos", 5)
        f = [str(n), "3", "1", "0", "2"]
        f[pos] = CLASS_TEXTS[inp.pick("text", len(CLASS_TEXTS))]
        line = ";".join(f) + ";x\n"
    else:
        pos = inp.pick("pos", 5)
        f = [str(n), "3", "1", "0", "2"]
        f[pos] = str(inp.int("bad", 256, 100000) if inp.bool("big") else inp.int("neg", -3, -1))
        line = ";".join(f) + ";x\n"
    kind, val, _wr = w.feed(line)
    r = _classify(kind, val, line)
    if r != "msg":
        _still_usable(w, r)
    return [r, which]


class DuckReader:
    def __init__(self, data):
        self.data = data

    async def readuntil(self, sep):
        return self.data


def _transport():
    from aiomysensors.transport import StreamTransport

    class T(StreamTransport):
        async def _open_connection(self):
            raise OSError("not used")

    return T()


def sym_decode(inp, part):
    """Decode totality: whatever bytes readuntil hands back, read() returns text or raises a
    transport error."""
    from aiomysensors.exceptions import TransportError

    alpha = UTF8_CLASSES if part["alphabet"] == "utf8classes" else ALPHABET
    k = inp.pick("len", part["maxlen"] + 1)
    data = bytes(alpha[inp.pick("b%d" % i, len(alpha))] for i in range(k))
    tr = _transport()
    tr.reader = DuckReader(data)
    try:
        out = run(tr.read())
    except TransportError as e:
        return ["lib:" + type(e).__name__, 0]
    except (Reject, Violation):
        raise
    except Exception as e:  # noqa: BLE001
        raise Violation("foreign-exception:%s" % type(e).__name__, "StreamTransport.read on %r raised %s: %s" % (data, type(e).__name__, str(e)[:150]))
    if not isinstance(out, str):
        raise Violation("read-returns-non-str", repr(type(out)))
    return ["stream-line", len(out)]


ALPHABET = [0x0A, 0x0D, 0x3B, 0x41, 0x80, 0xC3, 0xA9, 0xFF]
# one representative per UTF-8 byte class boundary (ASCII, continuation ranges, 2/3/4-byte leads, invalid leads)
UTF8_CLASSES = [0x00, 0x0A, 0x41, 0x7F, 0x80, 0x8F, 0x90, 0x9F, 0xA0, 0xA9, 0xBF, 0xC0, 0xC2, 0xC3, 0xDF, 0xE0, 0xE1, 0xED, 0xEF, 0xF0, 0xF4, 0xF5, 0xFF]


def sym_streamreader(inp, part):
    """Real asyncio.StreamReader fed with bytes over the alphabet; every read() yields a str or a
    transport error, never anything else."""
    import asyncio

    from aiomysensors.exceptions import TransportError

    k = inp.pick("len", part["maxlen"] + 1)
    data = bytes(ALPHABET[inp.pick("b%d" % i, len(ALPHABET))] for i in range(k))
    loop = asyncio.new_event_loop()
    try:
        async def main():
            tr = _transport()
            tr.reader = asyncio.StreamReader(limit=4)
            tr.reader.feed_data(data)
            if part["eof"]:
                tr.reader.feed_eof()
            outs = []
            for _ in range(k + 1):
                if not part["eof"] and b"\n" not in bytes(tr.reader._buffer):
                    break  # would block: nothing more to observe
                try:
                    s = await tr.read()
                    outs.append("line")
                    if not isinstance(s, str):
                        raise Violation("read-returns-non-str", repr(type(s)))
                except TransportError as e:
                    outs.append("lib:" + type(e).__name__)
                    if part["eof"] and not tr.reader._buffer:
                        break
                    if isinstance(e.__cause__, asyncio.LimitOverrunError):
                        break
                except (Reject, Violation):
                    raise
                except Exception as e:  # noqa: BLE001
                    raise Violation("foreign-exception:%s" % type(e).__name__, "StreamTransport.read on stream %r raised %s: %s" % (data, type(e).__name__, str(e)[:150]))
            return outs

        outs = loop.run_until_complete(main())
    finally:
        loop.close()
    tag = "stream-line" if "line" in outs else (outs[0] if outs else "stream-empty")
    return [tag, outs]


def sym_stream_gateway(inp, part):
    """A Gateway on a real StreamTransport (real StreamReader, writer that really encodes): a set whose
    payload carries arbitrary bytes, then a req that makes the controller echo the stored value.  Every
    listen step must yield or raise a library error - also when the echo is written."""
    import asyncio

    from aiomysensors.exceptions import AIOMySensorsError
    from aiomysensors.gateway import Gateway
    from aiomysensors.model.node import Node

    from harness.c16_lifecycle import FakeWriter
    from sx import vloop

    k = inp.pick("len", part["maxlen"] + 1)
    payload = bytes(ALPHABET[2:][inp.pick("b%d" % i, len(ALPHABET) - 2)] for i in range(k))
    data = b"1;1;1;0;2;" + payload + b"\n" + b"1;1;2;0;2;\n" + PROBE.encode()
    outs = []

    async def main():
        tr = _transport()
        tr.reader = asyncio.StreamReader()
        tr.writer = FakeWriter()
        tr.reader.feed_data(data)
        tr.reader.feed_eof()
        gw = Gateway(tr)
        gw.protocol_version = "2.2"
        nd = Node(1, 17, "2.2")
        nd.add_child(1, 6)
        gw.nodes[1] = nd
        for _ in range(3):
            agen = gw.listen()
            try:
                m = await anext(agen)
                outs.append("msg")
            except AIOMySensorsError as e:
                outs.append("lib:" + type(e).__name__)
            except (Reject, Violation):
                raise
            except Exception as e:  # noqa: BLE001
                raise Violation("foreign-exception:%s" % type(e).__name__, "stream %r: listen step %d raised %s: %s" % (data, len(outs), type(e).__name__, str(e)[:150]))
            finally:
                await agen.aclose()

    try:
        vloop.run(main)
    except vloop.Deadlock as e:
        raise Violation("deadlock", str(e))
    if outs[-1] != "msg":
        raise Violation("unusable-after-error", "stream %r: the final well-formed line gave %r" % (data, outs))
    return [outs[0], outs]


def sym_rawline(inp, part):
    w = World(inp, "2.2")
    w.add_node(1)
    line = inp.str("line", part["maxlen"])
    kind, val, _wr = w.feed(line)
    r = _classify(kind, val, line)
    return [r, 0]
