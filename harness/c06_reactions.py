"""C06 - writes are exactly the specified reactions, addressed to the asker, unbuffered."""
from __future__ import annotations

from harness.common import LINE_TERMINATORS, VERSIONS, Reject, Violation, stub_repr
from harness.stepkit import draw_id, BATTERY_TEXTS, HEARTBEAT_TEXTS, World, build_registry, check_consistency, compare_outcome, compare_registry, compare_writes
from spec import step_model as M

PROPERTY = "C06"
BOUNDS = {
    "quick": "one step from every built pre-state: 0..1 registry node (id sym [10,99]; reboot, sleeping flags symbolic) with 0..1 child and 0..1 stored value (type sym [0,9]); metric symbolic; event node sym [10,99], child sym [10,99] or 255, all 5 commands (plus 'boundary' partitions with node ids from {0,255} and child ids from {0,254,255} for set/req/stream), internal types from {0,1,2,3,5,6,9,11,13,14,18,21,22,32} with payload class lists plus every internal type of the version's table with payload '1' (sleeping flag symbolic), stream sym [0,5]; version known (1.4, 2.0, 2.2; thorough: all 5) and unknown (version reply / gateway presentation payload from a 7-text class list); time reply: day/hour/minute/second symbolic over (year,month) in {1970-01, 2000-02, 2024-02, 2038-01}",
    "thorough": "quick on all 5 versions, plus A: ids sym [0,255] (every digit class), plus B: 0..2 registry nodes, plus C: 0..2 children and types sym [0,40]",
}
REALISED = ["(year, month) of the clock stub are a grid (datetime.date realises them)", "version texts, battery/heartbeat texts are class lists"]
STUBS = ["RecTransport", "protocol_14.time -> fake clock: localtime() returns symbolic fields; gmtime()/time() return different values so that a swap is visible", "symbolic maps", "__repr__ -> constant"]
ASSUMPTIONS = ["pre-states built through Node/add_child/set_child_value; data independence beyond the shape bound",
               "the time reply is str(calendar.timegm(localtime())) = local wall-clock fields read as UTC, computed in the oracle by an independent days-from-civil formula"]
MUST_REACH = ["msg", "MissingNodeError", "time-ok", "unknown-version-query"]

INTERNAL_TYPES = [0, 1, 2, 3, 5, 6, 9, 11, 13, 14, 18, 21, 22, 32]
VERSION_TEXTS = ["2.2", "2.0.0", "1.4", "1.5.1", "2.3.2", "garbage", ""]


SUBS = {"a": [0, 2], "b": [1, 3, 5, 6], "c": [9, 11, 13, 14], "d": [18, 21, 22, 32]}
ALLTYPES_SKIP = (1, 2)  # time reply: sym_time; version report: needs a version text


def partitions(tier):
    q = tier == "quick"
    ids = {"idlo": 10, "idhi": 99, "tvhi": 9, "maxnodes": 1, "maxch": 1}
    idsA = {"idlo": 0, "idhi": 255, "tvhi": 9, "maxnodes": 1, "maxch": 1}   # thorough A: every digit class
    idsB = {"idlo": 10, "idhi": 99, "tvhi": 9, "maxnodes": 2, "maxch": 1}   # thorough B: two registry nodes
    idsC = {"idlo": 10, "idhi": 99, "tvhi": 40, "maxnodes": 1, "maxch": 2}  # thorough C: two children, wide type window
    parts = []

    def add(prefix, v, known):
        for cmd, sub in ((0, ""), (1, ""), (2, ""), (3, "a"), (3, "b"), (3, "c"), (3, "d"), (4, "")):
            for tag, dims in ((("", ids),) if (q or cmd == 3) else (("", ids), ("A", idsA), ("B", idsB), ("C", idsC))):
                parts.append(dict(dims, name="%s%s-cmd%d%s" % (prefix, tag, cmd, sub), fn="sym_step", version=v, known=known, cmd=cmd, sub=sub,
                                  sym_reboot=(cmd == 1), sym_sleep=(cmd in (2, 3) and sub in ("", "b")),
                                  budget=500 if q else 3000, cost=4 if not tag else 9))

    for v in VERSIONS:
        # every internal type of the version's table, one by one (no other received message produces a write)
        top = M.INTERNAL_MAX[v]
        for lo_t in range(0, top + 1, 12):
            parts.append(dict(ids, name="alltypes-%s-t%d" % (v, lo_t), fn="sym_step", version=v, known=True, cmd=3, sub="all",
                              tlo=lo_t, thi=min(top, lo_t + 11), maxch=0, values=False, sym_sleep=True, budget=500 if q else 2000, cost=4))
        if q and v not in ("1.4", "2.0", "2.2"):
            parts.append({"name": "time-%s" % v, "fn": "sym_time", "version": v, "budget": 500, "cost": 3})
            continue  # 1.5 / 2.1 only subclass their predecessor; C19 checks the equivalence, thorough runs them here too
        add("known-%s" % v, v, True)
        for cmd in (1, 2, 4):
            parts.append({"name": "boundary-%s-cmd%d" % (v, cmd), "fn": "sym_step", "version": v, "known": True, "cmd": cmd, "sub": "", "maxnodes": 1, "maxch": 1,
                          "idset": [0, 255], "cidset": [0, 254], "cevset": [0, 254, 255], "idlo": 0, "idhi": 255, "tvhi": 9, "sym_reboot": cmd == 1, "budget": 500 if q else 2000, "cost": 3})
        parts.append({"name": "time-%s" % v, "fn": "sym_time", "version": v, "budget": 500 if q else 2000, "cost": 3})
    add("unknown", "1.4", False)
    return parts


def setup(part):
    stub_repr()


def _event(inp, part, known):
    cmd = part["cmd"]
    lo, hi = part.get("idlo", 0), part.get("idhi", 255)
    n = draw_id(inp, "n", part, lo, hi) if not (cmd == 0 and inp.bool("gw")) else 0
    c = 255 if (hi < 255 and inp.bool("sys")) else draw_id(inp, "c", part, lo, hi)
    conv = None
    if cmd == 3 and part["sub"] == "all":
        t = inp.int("t", part["tlo"], part["thi"])
        for skip in ALLTYPES_SKIP:
            if t == skip:
                raise Reject
        if c != 255 and t != 3:
            raise Reject
        p = "1"
        conv = ("ok", 1)
        return n, c, cmd, 0, t, p, conv
    if cmd == 3:
        types = SUBS[part["sub"]]
        t = types[inp.pick("ti", len(types))]
        if c != 255 and t != 3:
            raise Reject
        if t == 0:
            p = BATTERY_TEXTS[inp.pick("bt", 6)]
            try:
                conv = ("ok", round(float(p)))
            except (ValueError, OverflowError):
                conv = ("bad",)
        elif t == 22:
            p = HEARTBEAT_TEXTS[inp.pick("ht", 4)]
            try:
                conv = ("ok", int(p))
            except ValueError:
                conv = ("bad",)
        elif t == 2:
            p = VERSION_TEXTS[inp.pick("vt", len(VERSION_TEXTS))]
        else:
            p = inp.str("p", 1, exclude=LINE_TERMINATORS, no_trailing_ws=True)
    elif cmd == 4:
        t = inp.int("t", 0, 6)
        if c != 255:
            raise Reject
        p = ""
    else:
        t = inp.int("t", 0, part.get("tvhi", 40))
        if c == 255 and cmd != 0:
            raise Reject
        if cmd == 0 and c == 255 and n == 0:
            p = VERSION_TEXTS[inp.pick("vt", len(VERSION_TEXTS))]
        elif cmd == 1 and inp.bool("same_as_stored"):
            p = "v0"  # the payload the registry builder stores: a set that repeats the stored value
        else:
            p = inp.str("p", 1, exclude=LINE_TERMINATORS, no_trailing_ws=True)
    return n, c, cmd, 0, t, p, conv


def check_buffers(w):
    """Reactions are never parked: the set buffer is untouched, the internal buffer holds exactly
    the outstanding presentation-request markers (C10)."""
    buf = w.gw._message_buffer
    if len(buf.set_messages) != len(w.st.parked):
        raise Violation("parked-reaction", "set buffer holds %d entries after the step, expected %d" % (len(buf.set_messages), len(w.st.parked)))
    if len(buf.internal_messages) != len(w.st.markers):
        raise Violation("parked-reaction:internal", "internal buffer holds %d entries, expected %d markers" % (len(buf.internal_messages), len(w.st.markers)))
    for m in w.st.markers:
        if (m, 255, 19) not in buf.internal_messages:
            raise Violation("parked-reaction:internal", "marker for node %r missing" % (m,))


def sym_step(inp, part):
    v, known = part["version"], part["known"]
    metric = inp.bool("metric")
    w = World(inp, v, known=known, metric=metric)
    build_registry(w, inp, part)
    n, c, cmd, ack, t, p, conv = _event(inp, part, known)
    if cmd == 3 and t == 1:
        raise Reject  # time reply: sym_time
    line = M.line(n, c, cmd, ack, t, p)
    kind, val, writes = w.feed(line)
    if cmd == 3 and t == 0 and conv[0] == "ok" and not (0 <= conv[1] <= 100) and kind != "msg":
        conv = ("bad",)
    was_unknown = w.st.version is None
    out, mwrites = M.step(w.st, n, c, cmd, ack, t, p, conv=conv)
    compare_outcome(kind, val, out, n, c, cmd, ack, t, p)
    compare_writes(writes, mwrites)
    compare_registry(w.gw, w.st)
    check_buffers(w)
    check_consistency(w.gw)
    if was_unknown and len(mwrites) > 0 and mwrites[-1] == "0;255;3;0;2;\n":
        return ["unknown-version-query", cmd]
    return [out.kind, cmd]


def days_from_civil(y, m, d):
    """Howard Hinnant's algorithm (independent of the datetime module)."""
    y = y - 1 if m <= 2 else y
    era = (y if y >= 0 else y - 399) // 400
    yoe = y - era * 400
    mp = (m + 9) % 12
    doy = (153 * mp + 2) // 5 + d - 1
    doe = yoe * 365 + yoe // 4 - yoe // 100 + doy
    return era * 146097 + doe - 719468


class LocalTime(tuple):
    """time.struct_time look-alike that keeps symbolic fields symbolic; the zone is 5h30 east of UTC."""

    tm_gmtoff = 19800
    tm_zone = "+0530"
    tm_year = property(lambda s: s[0])
    tm_mon = property(lambda s: s[1])
    tm_mday = property(lambda s: s[2])
    tm_hour = property(lambda s: s[3])
    tm_min = property(lambda s: s[4])
    tm_sec = property(lambda s: s[5])
    tm_wday = property(lambda s: s[6])
    tm_yday = property(lambda s: s[7])
    tm_isdst = property(lambda s: s[8])


class FakeClock:
    def __init__(self, local, other):
        self.local = LocalTime(local)
        self.other = LocalTime(other)

    def localtime(self, *a):
        return self.local

    def gmtime(self, *a):
        return self.other

    def time(self):
        return 1234567890.5

    def time_ns(self):
        return 1234567890500000000


def sym_time(inp, part):
    from aiomysensors.model.protocol import protocol_14

    v = part["version"]
    w = World(inp, v, known=True)
    ym = [(1970, 1), (2000, 2), (2024, 2), (2038, 1)][inp.pick("ym", 4)]
    day = inp.int("day", 1, 28)
    hour = inp.int("hour", 0, 23)
    minute = inp.int("minute", 0, 59)
    second = inp.int("second", 0, 61)
    local = (ym[0], ym[1], day, hour, minute, second, 0, 1, -1)
    other = (ym[0], ym[1], day, (hour + 5) % 24, minute, second, 0, 1, 0)
    real_time = protocol_14.time
    protocol_14.time = FakeClock(local, other)
    try:
        n = inp.int("n", 10, 99)
        line = M.line(n, 255, 3, 0, 1, "")
        kind, val, writes = w.feed(line)
    finally:
        protocol_14.time = real_time
    now = days_from_civil(ym[0], ym[1], day) * 86400 + hour * 3600 + minute * 60 + second
    out, mwrites = M.step(w.st, n, 255, 3, 0, 1, "", now=now)
    compare_outcome(kind, val, out, n, 255, 3, 0, 1, "")
    compare_writes(writes, mwrites)
    check_buffers(w)
    return ["time-ok", ym[0]]
