"""Paired construction of (real Gateway, reference-model state) and comparison helpers.

Pre-states are built with the library's public model API (Node / add_child / values, Gateway.send
for parked commands) - every built state is one that presentations, sets and sends reach.
"""
from __future__ import annotations

from harness.common import Reject, Violation, listen_step, mk_add_node, new_gateway, run, symmap
from spec import step_model as M

# payload class list for numeric conversions: (text, kind) - real float()/int() are executed
BATTERY_TEXTS = ["55", "0", "100", "99.5", "abc", "", "nan", "inf", "-inf", "1e400", "150", "-3", "100.6", " 42", "4_2", "٣"]
HEARTBEAT_TEXTS = ["0", "1111", "abc", "", "1.5", "-5", " 7", "99999999999999999999", "1e3", "٣"]


def install_child_subclass(inp):
    from aiomysensors.model import node as node_mod

    base = getattr(node_mod, "_sx_base_child", None) or node_mod.Child
    node_mod._sx_base_child = base
    if not getattr(inp, "symbolic", False):
        node_mod.Child = base
        return base

    class SymChild(base):  # type: ignore[misc,valid-type]
        def __init__(self, *a, **kw):
            super().__init__(*a, **kw)
            if type(self.values) is dict and not self.values:
                self.values = symmap(inp)

    SymChild.__name__ = "Child"
    SymChild.__qualname__ = "Child"
    node_mod.Child = SymChild
    return SymChild


class World:
    """impl gateway + transport + model state, built in lock step."""

    def __init__(self, inp, version, known=True, metric=True, fail=None):
        self.inp = inp
        self.gw, self.tr = new_gateway(inp, version if known else None, metric=metric, fail=fail)
        install_child_subclass(inp)
        self.st = M.MState(version if known else None, version if known else "1.4", metric)
        self.version = version

    def add_node(self, nid, ntype=17, version="2.0", sleeping=False, reboot=False):
        nd = mk_add_node(self.inp, self.gw, nid, ntype, version)
        nd.sleeping = sleeping
        nd.reboot = reboot
        mn = M.MNode(nid, ntype, version)
        mn.sleeping = sleeping
        mn.reboot = reboot
        M.aset(self.st.nodes, nid, mn)
        return nd, mn

    def add_child(self, nid, cid, ctype=6, desc="d"):
        self.gw.nodes[nid].add_child(cid, ctype, description=desc)
        M.aset(M.aget(self.st.nodes, nid).children, cid, M.MChild(cid, ctype, desc))

    def set_value(self, nid, cid, t, payload):
        self.gw.nodes[nid].set_child_value(cid, t, payload)
        M.aset(M.aget(M.aget(self.st.nodes, nid).children, cid).values, t, payload)

    def mark(self, nid):
        """Outstanding presentation request for nid, as a missing-node message leaves it."""
        from aiomysensors.model.message import Message

        self.gw._message_buffer.internal_messages[(nid, 255, 19)] = Message(nid, 255, 3, 0, 19, "")
        self.st.markers.append(nid)

    def park(self, nid, cid, t, payload):
        """Park a set command through the real Gateway.send (destination must be sleeping)."""
        from aiomysensors.model.message import Message

        before = len(self.tr.writes)
        run(self.gw.send(Message(nid, cid, 1, 0, t, payload)))
        if len(self.tr.writes) != before:
            raise Violation("harness:park-wrote", "send to a sleeping node wrote immediately")
        M.aset(self.st.parked, (nid, cid, t), payload)

    def feed(self, line):
        self.tr.lines.append(line)
        before = len(self.tr.writes)
        kind, val = listen_step(self.gw)
        return kind, val, self.tr.writes[before:]


def draw_id(inp, name, part, lo, hi, child=False):
    """Symbolic id in [lo,hi], or - for 'boundary' partitions - a pick from a concrete id set."""
    ids = part.get("cidset" if child else "idset")
    if name == "c" and part.get("cevset"):
        ids = part["cevset"]
    if ids:
        return ids[inp.pick(name, len(ids))]
    return inp.int(name, lo, hi)


def build_registry(w, inp, part, prefix=""):
    """Symbolic registry shape: 0..maxnodes nodes with symbolic distinct ids, each with 0..maxch
    children with symbolic ids; optional stored value; returns list of node ids."""
    idlo, idhi = part.get("idlo", 0), part.get("idhi", 255)
    maxnodes = part.get("maxnodes", 1)
    maxch = part.get("maxch", 1)
    nn = part["fixnodes"] if "fixnodes" in part else inp.pick(prefix + "nn", maxnodes + 1)
    ids = []
    for i in range(nn):
        a = draw_id(inp, prefix + "a%d" % i, part, idlo, idhi)
        for b in ids:
            if a == b:
                raise Reject
        ids.append(a)
        reboot = inp.bool(prefix + "reboot%d" % i) if part.get("sym_reboot") else False
        sleeping = inp.bool(prefix + "sleep%d" % i) if part.get("sym_sleep") else False
        w.add_node(a, 17, "2.0", sleeping=sleeping, reboot=reboot)
        nc = part["fixch"] if "fixch" in part else inp.pick(prefix + "nc%d" % i, maxch + 1)
        cids = []
        for j in range(nc):
            cc = draw_id(inp, prefix + "c%d_%d" % (i, j), part, part.get("cidlo", idlo), part.get("cidhi", min(idhi, 254)), child=True)
            for d in cids:
                if cc == d:
                    raise Reject
            cids.append(cc)
            w.add_child(a, cc, 6, "d%d" % j)
            if part.get("values", True) and inp.bool(prefix + "hasv%d_%d" % (i, j)):
                tv = inp.int(prefix + "tv%d_%d" % (i, j), 0, part.get("tvhi", 40))
                w.set_value(a, cc, tv, "v%d" % j)
    return ids


def compare_registry(gw, st, what="registry"):
    nodes = gw.nodes
    if len(nodes) != len(st.nodes):
        raise Violation("%s:node-count" % what, "registry has %d nodes, expected %d" % (len(nodes), len(st.nodes)))
    for k, mn in st.nodes:
        if k not in nodes:
            raise Violation("%s:node-missing" % what, "node %r expected in registry" % (k,))
        nd = nodes[k]
        for name, got, want in (
            ("node_id", nd.node_id, mn.nid), ("node_type", nd.node_type, mn.ntype),
            ("protocol_version", nd.protocol_version, mn.version), ("sketch_name", nd.sketch_name, mn.sketch_name),
            ("sketch_version", nd.sketch_version, mn.sketch_version), ("battery_level", nd.battery_level, mn.battery),
            ("heartbeat", nd.heartbeat, mn.heartbeat), ("sleeping", nd.sleeping, mn.sleeping),
        ):
            if got != want:
                raise Violation("%s:node.%s" % (what, name), "node %r: %s is %r, expected %r" % (k, name, got, want))
        if len(nd.children) != len(mn.children):
            raise Violation("%s:child-count" % what, "node %r has %d children, expected %d" % (k, len(nd.children), len(mn.children)))
        for ck, mc in mn.children:
            if ck not in nd.children:
                raise Violation("%s:child-missing" % what, "node %r child %r expected" % (k, ck))
            ch = nd.children[ck]
            for name, got, want in (("child_id", ch.child_id, mc.cid), ("child_type", ch.child_type, mc.ctype),
                                    ("description", ch.description, mc.desc)):
                if got != want:
                    raise Violation("%s:child.%s" % (what, name), "node %r child %r: %s is %r, expected %r" % (k, ck, name, got, want))
            want_values = mc.values
            if mc.values_alt is not None and len(ch.values) == len(mc.values_alt) and len(ch.values) != len(mc.values):
                want_values = mc.values_alt
            if len(ch.values) != len(want_values):
                raise Violation("%s:value-count" % what, "node %r child %r has %d values, expected %d" % (k, ck, len(ch.values), len(want_values)))
            for tk, pv in want_values:
                got = ch.values.get(tk)
                if got != pv:
                    raise Violation("%s:value" % what, "node %r child %r type %r: value %r, expected %r" % (k, ck, tk, got, pv))


def compare_outcome(kind, val, out, n, c, cmd, ack, t, p, what="outcome"):
    """kind,val from listen_step vs model Outcome."""
    if out.kind == "msg":
        if kind != "msg":
            raise Violation("%s:unexpected-error:%s" % (what, type(val).__name__), "expected a yielded message, got %s: %s" % (type(val).__name__, str(val)[:150]))
        m = val
        for name, got, want in (("node_id", m.node_id, n), ("child_id", m.child_id, c), ("command", m.command, cmd),
                                ("ack", m.ack, ack), ("message_type", m.message_type, t), ("payload", m.payload, p)):
            if got != want:
                raise Violation("%s:yield.%s" % (what, name), "yielded %s=%r, line spells %r" % (name, got, want))
        return
    if kind == "msg":
        raise Violation("%s:missing-error:%s" % (what, out.kind), "expected %s, a message was yielded" % out.kind)
    name = type(val).__name__
    if name != out.kind and name != out.alt:
        raise Violation("%s:wrong-error:%s" % (what, name), "expected %s, got %s: %s" % (out.kind, name, str(val)[:150]))
    if name == "MissingNodeError" and out.ident is not None and val.node_id != out.ident:
        raise Violation("%s:error-names-wrong-node" % what, "MissingNodeError.node_id=%r, missing node is %r" % (val.node_id, out.ident))
    if name == "MissingChildError" and out.ident is not None and val.child_id != out.ident:
        raise Violation("%s:error-names-wrong-child" % what, "MissingChildError.child_id=%r, missing child is %r" % (val.child_id, out.ident))


def compare_writes(got, want, what="writes"):
    if len(got) != len(want):
        raise Violation("%s:count" % what, "wrote %r, expected %r" % (list(got), list(want)))
    for i in range(len(want)):
        if got[i] != want[i]:
            raise Violation("%s:content" % what, "write %d is %r, expected %r (all: %r)" % (i, got[i], want[i], list(got)))


def check_consistency(gw, what="consistency"):
    """C05(b): reported version, active protocol and schema context agree."""
    from aiomysensors.model.protocol import get_protocol

    try:
        want = get_protocol(gw.protocol_version or "1.4")
    except ValueError:
        raise Violation("%s:reported-version-unparsable" % what, "protocol_version=%r is not a version, active protocol is %s" % (gw.protocol_version, gw.protocol.VERSION))
    if gw.protocol is not want:
        raise Violation("%s:version-vs-protocol" % what, "protocol_version=%r but active protocol is %s" % (gw.protocol_version, gw.protocol.VERSION))
    if gw._message_schema.context.get("protocol") is not want:
        raise Violation("%s:schema-context" % what, "schema context holds another protocol than the active one")
