"""C05 - the active protocol is the newest supported one not newer than the reported version."""
from __future__ import annotations

from harness.common import VERSIONS, Reject, Violation, listen_step, mk_add_node, new_gateway, stub_repr
from harness.stepkit import check_consistency
from spec import step_model as M

PROPERTY = "C05"
BOUNDS = {
    "quick": "(a1) selection logic: real get_protocol body with major, minor symbolic in [0,10^6], patch/build present or absent (symbolic values [0,999]), version parser replaced by a contract stub; (a2) end to end with the real AwesomeVersion on the realised grid major {0,1,2,3,10} x minor {0..6,9,10,11} x patch {absent,0,1,2,10} x build {absent,0,1} (750 texts); (b) 2-event histories of version reports (version reply / gateway presentation, 9 texts incl. rejected ones) from version unknown or known: reported version, active protocol and schema agree after every step, a rejected report changes nothing; (b2) the same agreement across leaving and re-entering the gateway context; (c) type gate: internal and stream type sym [-2,99999] per version against the table sizes of the MySensors serial API",
    "thorough": "as quick with 3-event histories and components in (a1) up to 10^9",
}
REALISED = ["(a2) the version grid is enumerated value by value (AwesomeVersion's regexes realise the text)", "(c) type numbers inside a table are one path per value, all numbers above the table are one symbolic path; negative numbers are realised"]
STUBS = ["(a1) aiomysensors.model.protocol.AwesomeVersion -> contract stub: .major/.minor are the first two '.'-separated decimal components (validated against the real class on the a2 grid in the same run)", "RecTransport", "symbolic maps", "__repr__ -> constant"]
ASSUMPTIONS = ["table sizes hard-coded from the MySensors serial API: internal 0-14 / 0-17 / 0-28 / 0-28 / 0-33, stream 0-5",
               "version texts outside major.minor[.patch[.build]] with decimal components are outside the claim (C03 checks they cannot crash the receive path)"]
MUST_REACH = ["select-ok", "grid-ok", "history-ok", "gate-accept", "gate-refuse"]

GRID_MAJOR = [0, 1, 2, 3, 10]
GRID_MINOR = [0, 1, 2, 3, 4, 5, 6, 9, 10, 11]
GRID_PATCH = [None, 0, 1, 2, 10]
GRID_BUILD = [None, 0, 1]
REPORT_TEXTS = ["2.2", "2.2.0", "2.1.1", "2.0.0", "1.5", "1.4.2", "2.3.2", "garbage", ""]


def partitions(tier):
    q = tier == "quick"
    parts = [{"name": "select-logic-shape%d" % sh, "fn": "sym_select", "shape": sh, "hi": 10 ** 6 if q else 10 ** 9, "budget": 600 if q else 3000, "cost": 8}
             for sh in range(3)]
    for mj in GRID_MAJOR:
        parts.append({"name": "grid-major%d" % mj, "fn": "sym_grid", "major": mj, "budget": 300, "cost": 2})
    for known in (False, True):
        for first in range(len(REPORT_TEXTS)):
            parts.append({"name": "history-%s-%d" % ("known" if known else "unknown", first), "fn": "sym_history", "known": known, "first": first,
                          "steps": 2 if q else 3, "budget": 500 if q else 3000, "cost": 4})
    parts.append({"name": "context", "fn": "sym_context", "budget": 400, "cost": 3})
    parts.append({"name": "downgrade", "fn": "sym_downgrade", "budget": 400, "cost": 3})
    for v in VERSIONS:
        parts.append({"name": "gate-internal-%s" % v, "fn": "sym_gate", "version": v, "cmd": 3, "budget": 500, "cost": 4})
        parts.append({"name": "gate-stream-%s" % v, "fn": "sym_gate", "version": v, "cmd": 4, "budget": 300, "cost": 2})
    return parts


def setup(part):
    stub_repr()


def oracle_mm(major, minor):
    best = "1.4"
    if (major == 1 and minor >= 5) or major >= 2:
        best = "1.5"
    if major >= 2:
        best = "2.0"
    if (major == 2 and minor >= 1) or major >= 3:
        best = "2.1"
    if (major == 2 and minor >= 2) or major >= 3:
        best = "2.2"
    return best


class StubAV:
    """Contract of AwesomeVersion for release versions: major / minor = first two components."""

    def __init__(self, text):
        parts = text.split(".")
        self.major = parts[0] if len(parts) >= 1 and parts[0] != "" else None
        self.minor = parts[1] if len(parts) >= 2 else None


def sym_select(inp, part):
    import aiomysensors.model.protocol as P

    major = inp.int("major", 0, part["hi"])
    minor = inp.int("minor", 0, part["hi"])
    text = str(major) + "." + str(minor)
    shape = part["shape"]
    if shape >= 1:
        text = text + "." + str(inp.int("patch", 0, 999))
    if shape == 2:
        text = text + "." + str(inp.int("build", 0, 999))
    real = P.AwesomeVersion
    P.AwesomeVersion = StubAV
    try:
        body = getattr(P.get_protocol, "__wrapped__", P.get_protocol)
        try:
            mod = body(text)
        except Exception as e:  # noqa: BLE001
            raise Violation("select:raises:%s" % type(e).__name__, "get_protocol(%r): %s" % (text, str(e)[:150]))
    finally:
        P.AwesomeVersion = real
    want = oracle_mm(major, minor)
    if mod.VERSION != want:
        raise Violation("select:wrong-protocol", "get_protocol(%r) selected %s, expected %s" % (text, mod.VERSION, want))
    return ["select-ok", want]


def sym_grid(inp, part):
    import aiomysensors.model.protocol as P

    major = part["major"]
    minor = GRID_MINOR[inp.pick("minor", len(GRID_MINOR))]
    patch = GRID_PATCH[inp.pick("patch", len(GRID_PATCH))]
    build = GRID_BUILD[inp.pick("build", len(GRID_BUILD))]
    if patch is None and build is not None:
        raise Reject
    text = "%d.%d" % (major, minor)
    if patch is not None:
        text += ".%d" % patch
    if build is not None:
        text += ".%d" % build
    body = getattr(P.get_protocol, "__wrapped__", P.get_protocol)
    try:
        mod = body(text)
    except Exception as e:  # noqa: BLE001
        raise Violation("grid:raises:%s" % type(e).__name__, "get_protocol(%r): %s" % (text, str(e)[:150]))
    want = oracle_mm(major, minor)
    if mod.VERSION != want:
        raise Violation("grid:wrong-protocol", "get_protocol(%r) selected %s, expected %s" % (text, mod.VERSION, want))
    if P.get_protocol(text) is not mod:
        raise Violation("grid:cache", "cached get_protocol(%r) differs from the function body" % (text,))
    # contract check of the (a1) stub against the real parser
    av = P.AwesomeVersion(text)
    st = StubAV(text)
    if str(av.major) != st.major or str(av.minor) != st.minor:
        raise Violation("harness:stub-contract", "AwesomeVersion(%r) major/minor %r/%r, stub %r/%r" % (text, av.major, av.minor, st.major, st.minor))
    return ["grid-ok", want]


def sym_history(inp, part):
    """Version reports mixed: after each step version, protocol and schema agree; accepted
    report => protocol == oracle(text); rejected => nothing changed."""
    gw, tr = new_gateway(inp, "2.0" if part["known"] else None)
    # the application may keep one listen() stream open across version reports, or start a new one per message
    one_stream = inp.bool("one_listen_stream")
    stream = [gw.listen() if one_stream else None]

    def step():
        kind, val = listen_step(gw, stream[0])
        if one_stream and kind == "err":
            stream[0] = gw.listen()  # an exception ends an async generator: the application starts a new stream
        return kind, val

    cur_version = "2.0" if part["known"] else None
    cur_proto = "2.0" if part["known"] else "1.4"
    for i in range(part["steps"]):
        k = part["first"] if i == 0 else inp.pick("text%d" % i, len(REPORT_TEXTS))
        text = REPORT_TEXTS[k]
        via_presentation = inp.bool("pres%d" % i)
        ev = (0, 255, 0, 0, 18, text) if via_presentation else (0, 255, 3, 0, 2, text)
        tr.lines.append(M.line(*ev))
        before = len(tr.writes)
        kind, val = step()
        want = M.version_to_proto(text)
        if want is None:
            if kind != "err" or type(val).__name__ != "InvalidMessageError":
                raise Violation("history:bad-report-not-rejected", "report %r gave %s %r" % (text, kind, val))
        else:
            if kind != "msg":
                raise Violation("history:good-report-rejected:%s" % type(val).__name__, "report %r: %s" % (text, str(val)[:150]))
            cur_version, cur_proto = text, want
        if gw.protocol_version != cur_version:
            raise Violation("history:reported-version", "after report %r protocol_version is %r, expected %r" % (text, gw.protocol_version, cur_version))
        if gw.protocol.VERSION != cur_proto:
            raise Violation("history:active-protocol", "after report %r active protocol is %s, expected %s" % (text, gw.protocol.VERSION, cur_proto))
        check_consistency(gw, "history")
        # the rules in force are really those of cur_proto: probe with the newest type of each table
        nwrites = len(tr.writes) - before
        want_q = 1 if cur_version is None else 0
        if nwrites != want_q:
            raise Violation("history:version-query", "report %r produced %d writes, expected %d" % (text, nwrites, want_q))
    before = len(tr.writes)
    tr.lines.append(M.line(77, 1, 1, 0, 2, "x"))
    kind, val = step()
    asked = [w for w in tr.writes[before:] if w == "77;255;3;0;19;\n"]
    want_ask = 1 if cur_proto in ("2.0", "2.1", "2.2") else 0
    if kind != "err" or type(val).__name__ != "MissingNodeError" or len(asked) != want_ask:
        raise Violation("history:handler-rules-in-force", "active protocol should be %s: a set from unknown node 77 gave %s and %d presentation request(s)" % (cur_proto, type(val).__name__ if kind == "err" else "a message", len(asked)))
    probe_t = M.INTERNAL_MAX[cur_proto] + 1
    tr.lines.append(M.line(0, 255, 3, 0, probe_t, ""))
    kind, val = step()
    if kind != "err" or type(val).__name__ != "UnsupportedMessageError":
        raise Violation("history:rules-in-force", "internal type %d accepted although active protocol should be %s" % (probe_t, cur_proto))
    tr.lines.append(M.line(0, 255, 3, 0, probe_t - 1, ""))
    kind, val = step()
    if kind == "err" and type(val).__name__ == "UnsupportedMessageError":
        raise Violation("history:rules-in-force", "internal type %d refused although active protocol should be %s" % (probe_t - 1, cur_proto))
    return ["history-ok", cur_proto]


def _rules_match(gw, tr, what):
    """Reported version and the rules actually in force agree ("1.4 while no version has been reported")."""
    check_consistency(gw, what)
    proto = M.version_to_proto(gw.protocol_version) if gw.protocol_version is not None else "1.4"
    if gw.protocol.VERSION != proto:
        raise Violation("%s:active-protocol" % what, "protocol_version=%r but the active protocol is %s" % (gw.protocol_version, gw.protocol.VERSION))
    probe_t = M.INTERNAL_MAX[proto] + 1
    for t, want_refused in ((probe_t, True), (probe_t - 1, False)):
        tr.lines.append(M.line(0, 255, 3, 0, t, ""))
        kind, val = listen_step(gw)
        refused = kind == "err" and type(val).__name__ == "UnsupportedMessageError"
        if refused != want_refused:
            raise Violation("%s:rules-in-force" % what, "protocol_version=%r: internal type %d %s" % (gw.protocol_version, t, "refused" if refused else "accepted"))


def sym_downgrade(inp, part):
    """A type accepted under a newer protocol is refused again once an older protocol is in force - on the
    same gateway after a downgrade, and on any other gateway object of the same process."""
    t = [15, 17, 18, 20, 22, 28, 29, 32, 33][inp.pick("type", 9)]
    gw, tr = new_gateway(inp, None)

    def accepted(g, trp):
        trp.lines.append(M.line(0, 255, 3, 0, t, "1"))
        kind, val = listen_step(g)
        return not (kind == "err" and type(val).__name__ == "UnsupportedMessageError")

    if accepted(gw, tr):
        raise Violation("downgrade:accepted-before-any-report", "type %d accepted while no version was reported" % t)
    tr.lines.append(M.line(0, 255, 3, 0, 2, "2.2.0"))
    listen_step(gw)
    if not accepted(gw, tr):
        raise Violation("downgrade:refused-under-2.2", "type %d refused under 2.2" % t)
    old = ["1.4.2", "1.5", "2.0.0", "2.1"][inp.pick("older", 4)]
    tr.lines.append(M.line(0, 255, 3, 0, 2, old))
    listen_step(gw)
    want = t <= M.INTERNAL_MAX[M.version_to_proto(old)]
    if accepted(gw, tr) != want:
        raise Violation("downgrade:stale-type-gate", "after the report %r type %d is %s" % (old, t, "refused" if want else "still accepted"))
    check_consistency(gw, "downgrade")
    gw2, tr2 = new_gateway(inp, None)
    if accepted(gw2, tr2) != (t <= 14):
        raise Violation("downgrade:other-gateway", "a fresh gateway (no version reported) %s type %d" % ("refuses" if t <= 14 else "accepts", t))
    return ["history-ok", t]


def sym_context(inp, part):
    """Version reports inside 'async with gateway', leaving and re-entering the context."""
    from harness.common import run

    gw, tr = new_gateway(inp, None)
    run(gw.__aenter__())
    _rules_match(gw, tr, "context:entered")
    text = REPORT_TEXTS[inp.pick("text", 7)]
    tr.lines.append(M.line(0, 255, 3, 0, 2, text))
    kind, val = listen_step(gw)
    if kind != "msg":
        raise Violation("context:good-report-rejected:%s" % type(val).__name__, str(val)[:150])
    _rules_match(gw, tr, "context:reported")
    run(gw.__aexit__(None, None, None))
    _rules_match(gw, tr, "context:left")
    if inp.bool("reenter"):
        run(gw.__aenter__())
        _rules_match(gw, tr, "context:re-entered")
        run(gw.__aexit__(None, None, None))
    return ["history-ok", text]


def sym_gate(inp, part):
    v, cmd = part["version"], part["cmd"]
    gw, tr = new_gateway(inp, v)
    mk_add_node(inp, gw, 7)
    if cmd == 3:
        t = inp.int("t", -2, 99999)
        limit = M.INTERNAL_MAX[v]
    else:
        t = inp.int("t", -2, 99999)
        limit = M.STREAM_MAX
    tr.lines.append(M.line(7, 255, cmd, 0, t, "1"))
    kind, val = listen_step(gw)
    in_table = 0 <= t <= limit
    refused = kind == "err" and type(val).__name__ == "UnsupportedMessageError"
    if in_table and refused:
        raise Violation("gate:refuses-existing-type", "%s cmd %d type %r refused as unsupported" % (v, cmd, t))
    if not in_table and not refused:
        raise Violation("gate:accepts-unknown-type", "%s cmd %d type %r not refused (got %s %r)" % (v, cmd, t, kind, val))
    if refused and val.protocol_version != v:
        pass
    return ["gate-refuse" if refused else "gate-accept", cmd]
