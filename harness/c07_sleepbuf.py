"""C07 - sleep buffer: commands for a sleeping node wait for its wake, then go once."""
from __future__ import annotations

from harness.common import VERSIONS, Reject, Violation, run, stub_repr
from harness.stepkit import World, compare_outcome, compare_registry
from spec import step_model as M

PROPERTY = "C07"
BOUNDS = {
    "quick": "inductive step: two known nodes a,b (ids sym [10,99], distinct), sleeping flags symbolic, parked commands for keys (node,child,type) = (a,1,2),(a,1,3),(a,2,2),(b,1,2) each present or absent (symbolic; 64 pre-states incl. parked-but-not-sleeping); one event of 20 kinds: send set to a|b x (child,type) in {(1,2),(1,3),(2,2)} x buffering flag, receive from a|b: heartbeat response (wake in 2.0/2.1), pre-sleep notification (wake in 2.2), battery report, set; after the step writes (flush order free), outcome, registry and the complete buffer are compared with the model; 5 versions (1.x: sleeping flag set directly, no wake signal exists). one event may also be a version reply from the gateway (buffer must be untouched). Plus 2-event histories from an empty buffer (2.0, 2.2), and 'switch' histories: commands parked while the version is unknown, then the version report (protocol switch 1.4 -> 2.x), then a wake",
    "thorough": "as quick plus 3-event histories on 2.0 and 2.2 and 2-event histories on 1.4/1.5/2.1",
}
REALISED = []
STUBS = ["RecTransport", "symbolic maps", "__repr__ -> constant"]
ASSUMPTIONS = ["child ids {1,2}, value types {2,3} and payload texts are concrete; the buffer key logic does not inspect them beyond equality",
               "pre-states with parked commands are built through the real Gateway.send while the node is flagged sleeping; 'parked but not sleeping' is reached by clearing the flag as a re-presentation does",
               "the order in which a node's parked commands are released is not specified; writes of one flush are compared as multisets"]
MUST_REACH = ["parked", "released", "written-now", "nothing-to-release", "history-ok"]

KEYS = [("a", 1, 2), ("a", 1, 3), ("a", 2, 2), ("b", 1, 2)]  # (node, child, value type)


def partitions(tier):
    q = tier == "quick"
    parts = []
    for v in VERSIONS:
        for g in range(6):
            parts.append({"name": "step-%s-g%d" % (v, g), "fn": "sym_step", "version": v, "group": g, "budget": 600 if q else 3000, "cost": 5})
        if v in ("2.0", "2.1", "2.2"):
            parts.append({"name": "switch-%s" % v, "fn": "sym_switch", "version": v, "budget": 600 if q else 2000, "cost": 4})
        if (q and v in ("2.0", "2.2")) or not q:
            steps = 2 if (q or v in ("1.4", "1.5", "2.1")) else 3
            for first in range(6):
                parts.append({"name": "hist-%s-f%d" % (v, first), "fn": "sym_hist", "version": v, "steps": steps, "first": first,
                              "budget": 600 if q else 3600, "cost": 6 if steps == 2 else 20})
    return parts


def setup(part):
    stub_repr()


def compare_buffer(w, what="buffer"):
    buf = w.gw._message_buffer.set_messages
    if len(buf) != len(w.st.parked):
        raise Violation("%s:size" % what, "set buffer holds %d commands, expected %d" % (len(buf), len(w.st.parked)))
    for key, payload in w.st.parked:
        if key not in buf:
            raise Violation("%s:missing" % what, "command for key %r expected in the buffer" % (key,))
        m = buf[key]
        if m.payload != payload or m.node_id != key[0] or m.child_id != key[1] or m.message_type != key[2] or m.command != 1:
            raise Violation("%s:stale-or-wrong" % what, "buffer key %r holds payload %r, expected %r" % (key, m.payload, payload))


def compare_multiset(got, want, what):
    if len(got) != len(want):
        raise Violation("%s:count" % what, "wrote %r, expected (any order) %r" % (list(got), list(want)))
    rest = list(want)
    for g in got:
        hit = -1
        for i in range(len(rest)):
            if rest[i] == g:
                hit = i
                break
        if hit < 0:
            raise Violation("%s:content" % what, "wrote %r, expected (any order) %r" % (list(got), list(want)))
        del rest[hit]


def do_event(w, inp, a, b, ev, tagacc, tag=""):
    """ev: (kind, who, arg, buffering)"""
    from aiomysensors.model.message import Message

    kind, who, child, buffering, payload = ev
    n = a if who == 0 else b
    if kind == "send":
        child, vtype = child
        before = len(w.tr.writes)
        try:
            run(w.gw.send(Message(n, child, 1, 0, vtype, payload), message_buffer=buffering))
        except (Reject, Violation):
            raise
        except Exception as e:  # noqa: BLE001
            raise Violation("send-raises:%s" % type(e).__name__, str(e)[:150])
        writes = w.tr.writes[before:]
        mw = M.send_set(w.st, n, child, vtype, payload, buffering)
        compare_multiset(writes, mw, "send-writes")
        tagacc.append("written-now" if mw else "parked")
    else:
        line = {"hb": (n, 255, 3, 0, 22, "10"), "presleep": (n, 255, 3, 0, 32, ""), "battery": (n, 255, 3, 0, 0, "55"),
                "set": (n, 1, 1, 0, 2, "x"), "version": (0, 255, 3, 0, 2, child or w.version)}[kind]
        had = 0
        for key, _p in w.st.parked:
            if key[0] == n:
                had += 1
        k, val, writes = w.feed(M.line(*line))
        out, mw = M.step(w.st, *line, conv=("ok", 55 if kind == "battery" else 10))
        compare_outcome(k, val, out, *line)
        compare_multiset(writes, mw, "recv-writes")
        is_wake = (kind == "hb" and w.st.proto in ("2.0", "2.1")) or (kind == "presleep" and w.st.proto == "2.2")
        if is_wake and out.kind == "msg":
            tagacc.append("released" if had else "nothing-to-release")
        else:
            tagacc.append("no-wake")
    compare_registry(w.gw, w.st)
    compare_buffer(w)


def _two_nodes(inp, w):
    a = inp.int("a", 10, 99)
    b = inp.int("b", 10, 99)
    if a == b:
        raise Reject
    for nid in (a, b):
        w.add_node(nid)
        w.add_child(nid, 1)
        w.add_child(nid, 2)
    return a, b


EVENTS = ([("send", who, ct, buf, None) for who in (0, 1) for ct in ((1, 2), (1, 3), (2, 2)) for buf in (True, False)]
          + [(k, who, None, None, None) for k in ("hb", "presleep", "battery", "set") for who in (0, 1)]
          + [("version", 0, None, None, None)] * 4)
assert len(EVENTS) == 24


def sym_step(inp, part):
    w = World(inp, part["version"])
    a, b = _two_nodes(inp, w)
    ids = {"a": a, "b": b}
    # parked entries (built through the real send while sleeping)
    flags = {}
    for i, (who, child, vtype) in enumerate(KEYS):
        flags[i] = inp.bool("parked%d" % i)
    for nid in (a, b):
        w.gw.nodes[nid].sleeping = True
        M.aget(w.st.nodes, nid).sleeping = True
    for i, (who, child, vtype) in enumerate(KEYS):
        if flags[i]:
            w.park(ids[who], child, vtype, "old%d" % i)
    sa = inp.bool("sleep_a")
    sb = inp.bool("sleep_b")
    for nid, s in ((a, sa), (b, sb)):
        w.gw.nodes[nid].sleeping = s
        M.aget(w.st.nodes, nid).sleeping = s
    group = EVENTS[part["group"] * 4:(part["group"] + 1) * 4]
    ev = group[inp.pick("ev", 4)]
    if ev[0] == "send":
        ev = ev[:4] + ("new",)
    tags = []
    do_event(w, inp, a, b, ev, tags)
    return [tags[0], ev[0]]


def sym_switch(inp, part):
    """Commands parked while the gateway's version is still unknown (sleeping flags restored from
    persistence) survive the version report and are released at the node's wake under the new protocol."""
    w = World(inp, part["version"], known=False)
    a, b = _two_nodes(inp, w)
    ids = {"a": a, "b": b}
    for nid in (a, b):
        s = inp.bool("sleep_%d" % (nid == a))
        w.gw.nodes[nid].sleeping = s
        M.aget(w.st.nodes, nid).sleeping = s
    tags = []
    for i, (who, child, vtype) in enumerate(KEYS):
        if i in (0, 3) and inp.bool("send%d" % i):
            do_event(w, inp, a, b, ("send", 0 if who == "a" else 1, (child, vtype), True, "pre%d" % i), tags)
    via_presentation = inp.bool("via_gateway_presentation")
    text = [part["version"], part["version"] + ".1"][inp.pick("vtext", 2)]
    line = (0, 255, 0, 0, 18, text) if via_presentation else (0, 255, 3, 0, 2, text)
    k, val, writes = w.feed(M.line(*line))
    out, mw = M.step(w.st, *line)
    compare_outcome(k, val, out, *line)
    compare_multiset(writes, mw, "switch-writes")
    compare_buffer(w, "buffer-after-version-report")
    wake = "presleep" if part["version"] == "2.2" else "hb"
    do_event(w, inp, a, b, (wake, inp.pick("wake_who", 2), None, None, None), tags)
    return ["history-ok", tags]


def sym_hist(inp, part):
    w = World(inp, part["version"])
    a, b = _two_nodes(inp, w)
    if inp.bool("sleep_a"):
        w.gw.nodes[a].sleeping = True
        M.aget(w.st.nodes, a).sleeping = True
    tags = []
    for i in range(part["steps"]):
        if i == 0:
            group = EVENTS[part["first"] * 4:(part["first"] + 1) * 4]
            ev = group[inp.pick("ev0", 4)]
        else:
            ev = EVENTS[inp.pick("ev%d" % i, len(EVENTS))]
        if ev[0] == "send":
            ev = ev[:4] + ("v%d" % i,)
        do_event(w, inp, a, b, ev, tags)
    return ["history-ok", tags]
