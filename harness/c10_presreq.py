"""C10 - unknown node or child triggers one presentation request per episode (2.x)."""
from __future__ import annotations

from harness.c06_reactions import check_buffers
from harness.common import VERSIONS, Reject, Violation, stub_repr
from harness.stepkit import World, compare_outcome, compare_registry, compare_writes
from spec import step_model as M

PROPERTY = "C10"
BOUNDS = {
    "quick": "inductive step: pre-state = node a (id sym [10,99]) unknown / known without child / known with child, node b (id sym, distinct) unknown, outstanding-request marker for a and for b symbolic; one event of 13 kinds: from node a or b (set on known/unknown child, req, stream, battery, sketch name, sketch version, heartbeat response, discover response, child presentation, node presentation) or from the gateway node (version reply, gateway presentation - must not disturb other nodes' episodes) with a symbolic write-fault bit; 5 versions. Episodes: 2-event histories over {a,b} x {set, node presentation, child presentation, gateway version reply} x fault bit (2.0, 2.2, 1.5)",
    "thorough": "as quick plus 3-event histories over {a,b} x {set, node presentation, child presentation} x fault bit on all five versions",
}
REALISED = []
STUBS = ["RecTransport with write-fault bit (TransportFailedError, or - inductive step - the base TransportError by symbolic choice)", "symbolic maps", "__repr__ -> constant"]
ASSUMPTIONS = ["marker pre-states are built by inserting the entry a missing-node message leaves behind", "child ids are concrete (3 known, 4 unknown): C10 does not depend on them",
               "a failed request write surfaces as the transport error (the statement only says it does not count as sent)"]
MUST_REACH = ["request-written", "request-suppressed", "request-failed", "no-request-before-2.0", "episode-ok"]

KINDS = [
    ("set-known-child", lambda n: (n, 3, 1, 0, 2, "1")),
    ("set-missing-child", lambda n: (n, 4, 1, 0, 2, "1")),
    ("req", lambda n: (n, 4, 2, 0, 2, "")),
    ("stream", lambda n: (n, 255, 4, 0, 0, "")),
    ("battery", lambda n: (n, 255, 3, 0, 0, "55")),
    ("sketch-name", lambda n: (n, 255, 3, 0, 11, "s")),
    ("sketch-version", lambda n: (n, 255, 3, 0, 12, "1")),
    ("heartbeat-response", lambda n: (n, 255, 3, 0, 22, "10")),
    ("discover-response", lambda n: (n, 255, 3, 0, 21, "")),
    ("child-presentation", lambda n: (n, 4, 0, 0, 6, "d")),
    ("node-presentation", lambda n: (n, 255, 0, 0, 17, "2.0")),
    # traffic from the gateway node itself: must not disturb other nodes' episodes
    ("gateway-version-reply", lambda n: (0, 255, 3, 0, 2, "@V")),
    ("gateway-presentation", lambda n: (0, 255, 0, 0, 18, "@V")),
]
HIST_KINDS_Q = [0, 10, 9, 11]
HIST_KINDS_T = [0, 4, 10, 9]


def partitions(tier):
    q = tier == "quick"
    parts = []
    for v in VERSIONS:
        for g in range(4):
            parts.append({"name": "step-%s-g%d" % (v, g), "fn": "sym_step", "version": v, "group": g, "budget": 400 if q else 1500, "cost": 3})
        if not q or v in ("2.0", "2.2", "1.5"):
            for fa in ((None,) if q else (0, 1)):
                parts.append({"name": "hist-%s%s" % (v, "" if fa is None else "-from%s" % "ba"[fa]), "fn": "sym_hist", "version": v, "steps": 2 if q else 3,
                              "first_from_a": fa, "kinds": HIST_KINDS_Q, "budget": 500 if q else 3000, "cost": 5})
    return parts


def setup(part):
    stub_repr()


def _apply(w, inp, ev, fault, tag_acc, base_choice=True):
    from aiomysensors.exceptions import TransportError

    if base_choice:
        w.tr.fail = (lambda i: (TransportError if inp.bool("fault_base_%d" % len(tag_acc)) else True)) if fault else None
    else:
        w.tr.fail = (lambda i: True) if fault else None
    before_markers = len(w.st.markers)
    if ev[5] == "@V":
        ev = ev[:5] + (w.version,)
    kind, val, writes = w.feed(M.line(*ev))
    out, mwrites = M.step(w.st, *ev, conv=("ok", 55 if ev[4] == 0 else 10), fail_write=fault)
    if out.kind == "TransportFailedError":
        # the statement only says a failed request "does not count as sent": the step must fail, with the
        # transport error or with the original missing-node/child error
        if kind != "err" or type(val).__name__ not in ("TransportFailedError", "TransportError", "MissingNodeError", "MissingChildError"):
            raise Violation("failed-request-not-reported", "request write failed but listen gave %s %r" % (kind, val))
        tag_acc.append("request-failed")
    else:
        compare_outcome(kind, val, out, *ev)
    compare_writes(writes, mwrites)
    compare_registry(w.gw, w.st)
    check_buffers(w)
    if out.kind in ("MissingNodeError", "MissingChildError"):
        if not w.st.is2():
            tag_acc.append("no-request-before-2.0")
        elif len(mwrites) == 1:
            tag_acc.append("request-written")
        else:
            tag_acc.append("request-suppressed")


def sym_step(inp, part):
    v = part["version"]
    w = World(inp, v)
    a = inp.int("a", 10, 99)
    b = inp.int("b", 10, 99)
    if a == b:
        raise Reject
    shape = inp.pick("a_shape", 3)
    if shape >= 1:
        w.add_node(a)
    if shape == 2:
        w.add_child(a, 3)
    if inp.bool("a_marked"):
        w.mark(a)
    if inp.bool("b_marked"):
        w.mark(b)
    n = a if inp.bool("from_a") else b
    group = [KINDS[0:4], KINDS[4:8], KINDS[8:11], KINDS[11:13]][part["group"]]
    name, mk = group[inp.pick("kind", len(group))]
    fault = inp.bool("fault")
    tags = []
    _apply(w, inp, mk(n), fault, tags)
    return [tags[0] if tags else "other", name]


def sym_hist(inp, part):
    v = part["version"]
    w = World(inp, v)
    a = inp.int("a", 10, 99)
    b = inp.int("b", 10, 99)
    if a == b:
        raise Reject
    tags = []
    names = []
    for i in range(part["steps"]):
        n = a if (bool(part["first_from_a"]) if (i == 0 and part.get("first_from_a") is not None) else inp.bool("from_a%d" % i)) else b
        name, mk = KINDS[part["kinds"][inp.pick("kind%d" % i, len(part["kinds"]))]]
        fault = inp.bool("fault%d" % i)
        _apply(w, inp, mk(n), fault, tags, base_choice=False)
        names.append(name)
    return ["episode-ok", names]
