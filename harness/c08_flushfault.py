"""C08 - the sleep buffer loses nothing and repeats nothing when transport writes fail."""
from __future__ import annotations

from harness.common import Reject, Violation, listen_step, stub_repr
from harness.stepkit import World
from spec import step_model as M

PROPERTY = "C08"
BOUNDS = {
    "quick": "two sleeping nodes a,b (ids sym [10,99]); parked commands for keys (a,1),(a,2),(b,1),(b,2) each present or absent (at least one); 2 wakes, each of a or b (symbolic), one symbolic fault bit per transport write attempt; then one fault-free wake of a and of b; versions 2.0, 2.1 (heartbeat response) and 2.2 (pre-sleep notification)",
    "thorough": "4 keys (a,1),(a,2),(b,1),(b,2), 3 wakes with fault bits (<= 12 write attempts), then fault-free wakes",
}
REALISED = []
STUBS = ["RecTransport whose write raises TransportFailedError or the base TransportError (symbolic choice) when the symbolic fault bit of that attempt is set", "symbolic maps", "__repr__ -> constant"]
ASSUMPTIONS = ["a failing transport write raises a TransportError subclass (the Transport contract)", "child ids, value type and payloads are concrete"]
MUST_REACH = ["faulted", "clean"]


def partitions(tier):
    q = tier == "quick"
    parts = []
    for v in ("2.0", "2.1", "2.2"):
        for first in (0, 1):
            for k0 in (0, 1, 2, 3):
                parts.append({"name": "flush-%s-first%s-k%d" % (v, "ab"[first], k0), "fn": "sym_flush", "version": v, "first": first, "key0": k0,
                              "keys": 4, "wakes": 2 if q else 3, "budget": 600 if q else 3600, "cost": 5})
    return parts


def setup(part):
    stub_repr()


def sym_flush(inp, part):
    from aiomysensors.exceptions import TransportError

    v = part["version"]
    w = World(inp, v)
    a = inp.int("a", 10, 99)
    b = inp.int("b", 10, 99)
    if a == b:
        raise Reject
    ids = [a, b]
    for nid in ids:
        w.add_node(nid, sleeping=True)
        w.add_child(nid, 1)
        w.add_child(nid, 2)
    keys = [(0, 1), (0, 2), (1, 1), (1, 2)][:part["keys"]]
    cmds = []  # (node index, child, line)
    for i, (who, child) in enumerate(keys):
        if (bool((part["key0"] >> i) & 1) if (i < 2 and "key0" in part) else inp.bool("parked%d" % i)):
            w.park(ids[who], child, 2, "v%d" % i)
            cmds.append((who, child, M.line(ids[who], child, 1, 0, 2, "v%d" % i)))
    if not cmds:
        raise Reject
    wake_t = 32 if v == "2.2" else 22
    state = {"faults_this_wake": 0}

    def fail(i):
        f = inp.bool("fault%d" % i)
        if f:
            state["faults_this_wake"] += 1
            # either the base TransportError or the TransportFailedError subclass
            return TransportError if inp.bool("fault%d_base" % i) else True
        return f

    def invariant(when):
        buf = w.gw._message_buffer.set_messages
        for who, child, line in cmds:
            parked = 1 if (ids[who], child, 2) in buf else 0
            written = 0
            for wr in w.tr.writes:
                if wr == line:
                    written += 1
            if parked + written == 0:
                raise Violation("lost-command", "%s: command %r is neither parked nor written" % (when, line))
            if written > 1:
                raise Violation("repeated-command", "%s: command %r was written %d times" % (when, line, written))
            if parked + written > 1:
                raise Violation("written-and-still-parked", "%s: command %r was written and is still parked" % (when, line))
        if len(buf) > len(cmds):
            raise Violation("buffer-grew", "%s: buffer has %d entries" % (when, len(buf)))

    any_fault = False
    for k in range(part["wakes"]):
        who = part["first"] if k == 0 else inp.pick("wake%d" % k, 2)
        state["faults_this_wake"] = 0
        w.tr.fail = fail
        w.tr.lines.append(M.line(ids[who], 255, 3, 0, wake_t, "10" if wake_t == 22 else ""))
        nwrites = len(w.tr.writes)
        kind, val = listen_step(w.gw)
        if state["faults_this_wake"]:
            any_fault = True
            if kind != "err" or not isinstance(val, TransportError):
                raise Violation("fault-not-reported", "wake %d hit a write fault but listen gave %s %r" % (k, kind, val))
        else:
            if kind != "msg":
                raise Violation("clean-wake-failed:%s" % type(val).__name__, "wake %d without faults raised %s" % (k, str(val)[:150]))
        for wr in w.tr.writes[nwrites:]:
            ok = False
            for cw, _cc, line in cmds:
                if wr == line and cw == who:
                    ok = True
            if not ok:
                raise Violation("foreign-write", "wake of node %r wrote %r" % (ids[who], wr))
        invariant("after wake %d" % k)
    # later fault-free wakes release everything that is still parked
    w.tr.fail = None
    for who in (0, 1):
        w.tr.lines.append(M.line(ids[who], 255, 3, 0, wake_t, "10" if wake_t == 22 else ""))
        kind, val = listen_step(w.gw)
        if kind != "msg":
            raise Violation("clean-wake-failed:%s" % type(val).__name__, "final wake raised %s" % (str(val)[:150],))
    invariant("after the final wakes")
    if len(w.gw._message_buffer.set_messages) != 0:
        raise Violation("not-released", "%d commands still parked after fault-free wakes of both nodes" % len(w.gw._message_buffer.set_messages))
    return ["faulted" if any_fault else "clean", len(cmds)]
