"""Fake aiomqtt.Client (documented behaviour only) for the MQTT transport harnesses (C16, C18)."""
from __future__ import annotations

import asyncio


class FakeTopic:
    def __init__(self, value):
        self.value = value


class FakeMsg:
    def __init__(self, topic, payload):
        self.topic = FakeTopic(topic)
        self.payload = payload


class _Messages:
    """client.messages: async iterator that blocks while idle and may raise MqttError."""

    def __init__(self, client):
        self.client = client

    def __aiter__(self):
        return self

    async def __anext__(self):
        item = await self.client.queue.get()
        if isinstance(item, Exception):
            raise item
        return item


class FakeBrokerClient:
    def __init__(self, connect_fault=False, disconnect_fault=False, publish_fault=None, subscribe_fault=False):
        self.connect_fault = connect_fault
        self.disconnect_fault = disconnect_fault
        self.publish_fault = publish_fault
        self.subscribe_fault = subscribe_fault
        self.queue = None
        self.messages = _Messages(self)
        self.entered = False
        self.exited = False
        self.subscriptions = []
        self.published = []
        self.kwargs = None

    async def __aenter__(self):
        from aiomqtt import MqttError

        self.queue = asyncio.Queue()
        await asyncio.sleep(0)
        if self.connect_fault:
            raise MqttError("connection refused")
        self.entered = True
        return self

    async def __aexit__(self, *a):
        from aiomqtt import MqttError

        await asyncio.sleep(0)
        self.exited = True
        if self.disconnect_fault == "oserror":
            raise OSError(32, "Broken pipe")
        if self.disconnect_fault:
            raise MqttError("disconnect failed")

    async def subscribe(self, topic, qos=0, timeout=None):
        from aiomqtt import MqttError

        await asyncio.sleep(0)
        if self.subscribe_fault:
            raise MqttError("subscribe failed")
        self.subscriptions.append((topic, qos))

    async def publish(self, topic, payload=None, qos=0, retain=False, timeout=None):
        from aiomqtt import MqttError

        await asyncio.sleep(0)
        if self.publish_fault is not None and self.publish_fault(len(self.published)):
            raise MqttError("publish failed")
        self.published.append((topic, payload, qos, retain))

    # broker side
    def deliver(self, topic, payload):
        self.queue.put_nowait(FakeMsg(topic, payload))

    def fail(self, text="connection lost"):
        from aiomqtt import MqttError

        self.queue.put_nowait(MqttError(text))


def make_client(connect_fault=False, disconnect_fault=False, in_prefix="mygateway1-out", out_prefix="mygateway1-in", **kw):
    """MQTTClient wired to a FakeBrokerClient. Returns (transport, restore-tuple)."""
    from aiomysensors.transport import mqtt

    fake = FakeBrokerClient(connect_fault, disconnect_fault, **kw)

    def factory(*a, **k):
        fake.kwargs = (a, k)
        return fake

    restore = (mqtt, "AsyncioClient", mqtt.AsyncioClient)
    mqtt.AsyncioClient = factory
    tr = mqtt.MQTTClient("broker", in_prefix=in_prefix, out_prefix=out_prefix)
    tr.fake = fake
    # "disconnected" = the broker client was exited and the receive task is gone
    tr.is_down = lambda: (fake.exited or not fake.entered) and (tr._incoming_task is None or tr._incoming_task.done())
    return tr, restore
