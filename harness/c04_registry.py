"""C04 - the registry is a faithful record of what the network presented and reported."""
from __future__ import annotations

from harness.common import LINE_TERMINATORS, VERSIONS, Reject, Violation, run, stub_repr
from harness.stepkit import draw_id, BATTERY_TEXTS, HEARTBEAT_TEXTS, World, build_registry, check_consistency, compare_outcome, compare_registry
from spec import step_model as M

PROPERTY = "C04"
BOUNDS = {
    "quick": "one step from every built pre-state: 0..1 registry node (id sym [10,99]) with 0..1 child (id sym [10,99]) and 0..1 stored value (type sym [0,9]); event node sym [10,99], child sym [10,99] or 255, command per partition, type sym [0,9]; plus 'boundary' partitions per version and command with node ids from {0,255} and child ids from {0,254,255} (concrete picks), and a 'digits' partition per version: set message, node+child present, all four ids sym [0,255] (all digit classes, 0/254/255 boundaries) (set/req/presentation) or from the list {0,5,9,11,12,18,21,22,32} (internal) / sym [0,5] (stream); payload symbolic |p|<=1 (battery/heartbeat: class lists of 16/10 texts through the real float()/int()); step/boundary partitions on versions 1.4, 2.0, 2.2 (1.5 and 2.1 only subclass their predecessor, C19 checks the equivalence), digits and order partitions on all 5; 2-line histories through one listen() generator",
    "thorough": "quick on all 5 versions, plus A: all ids sym [0,255] (every digit class) with 0..1 node / 0..1 child, plus B: ids sym [10,99] with 0..2 registry nodes (0..1 child each), plus C: 0..1 node with 0..2 children and types sym [0,40]; 3-line histories",
}
REALISED = ["battery / heartbeat payload texts are concrete class lists"]
STUBS = ["RecTransport", "symbolic maps for Gateway.nodes / Node.children / Child.values / MessageBuffer (equality instead of hashing)", "Message/Node/Child __repr__ -> constant"]
ASSUMPTIONS = [
    "pre-states are built with Node/add_child/set_child_value (what presentations and sets do); data independence beyond the shape bound",
    "an out-of-range battery level may either be stored as given or rejected with a library error leaving the registry unchanged (the statements leave it open; C13 constrains it)",
    "node-0 presentations (version reports) are C05's subject and excluded here",
]
MUST_REACH = ["msg", "MissingNodeError", "MissingChildError", "order-ok"]

INTERNAL_TYPES = [0, 11, 12, 21, 22, 32, 5, 9, 18]


def partitions(tier):
    q = tier == "quick"
    parts = []
    for v in VERSIONS:
        main = (not q) or v in ("1.4", "2.0", "2.2")  # 1.5 / 2.1 only subclass their predecessor; C19 checks the equivalence, thorough runs them here too
        for cmd in ((0, 1, 2, 3, 3, 4) if main else ()):
            sub = ""
            if cmd == 3:
                sub = "b" if any(p["name"] == "step-%s-cmd3a" % v for p in parts) else "a"
            parts.append({"name": "step-%s-cmd%d%s" % (v, cmd, sub), "fn": "sym_step", "version": v, "cmd": cmd, "sub": sub, "sym_sleep": sub == "a",
                          "maxnodes": 1, "maxch": 1, "idlo": 10, "idhi": 99,
                          "tvhi": 9, "budget": 500 if q else 3000, "cost": 5 if cmd == 3 else 3})
            if not q and cmd != 3:
                # thorough adds: A = all digit classes of the ids, B = larger shapes and type window
                parts.append({"name": "stepA-%s-cmd%d%s" % (v, cmd, sub), "fn": "sym_step", "version": v, "cmd": cmd, "sub": sub,
                              "maxnodes": 1, "maxch": 1, "idlo": 0, "idhi": 255, "tvhi": 9, "budget": 3000, "cost": 9})
                parts.append({"name": "stepB-%s-cmd%d%s" % (v, cmd, sub), "fn": "sym_step", "version": v, "cmd": cmd, "sub": sub,
                              "maxnodes": 2, "maxch": 1, "idlo": 10, "idhi": 99, "tvhi": 9, "budget": 3000, "cost": 9})
                parts.append({"name": "stepC-%s-cmd%d%s" % (v, cmd, sub), "fn": "sym_step", "version": v, "cmd": cmd, "sub": sub,
                              "maxnodes": 1, "maxch": 2, "idlo": 10, "idhi": 99, "tvhi": 40, "budget": 3000, "cost": 9})
        for cmd in ((0, 1, 2, 4) if main else ()):
            parts.append({"name": "boundary-%s-cmd%d" % (v, cmd), "fn": "sym_step", "version": v, "cmd": cmd, "sub": "", "maxnodes": 1, "maxch": 1,
                          "idset": [0, 255], "cidset": [0, 254], "cevset": [0, 254, 255], "idlo": 0, "idhi": 255, "tvhi": 9, "budget": 500 if q else 2000, "cost": 3})
        parts.append({"name": "digits-%s" % v, "fn": "sym_step", "version": v, "cmd": 1, "fixnodes": 1, "fixch": 1, "values": False,
                      "idlo": 0, "idhi": 255, "tvhi": 9, "budget": 500 if q else 3000, "cost": 3})
        parts.append({"name": "order-%s" % v, "fn": "sym_order", "version": v, "steps": 2 if q else 3,
                      "budget": 500 if q else 3000, "cost": 4})
    return parts


def setup(part):
    stub_repr()


def sym_step(inp, part):
    v, cmd = part["version"], part["cmd"]
    w = World(inp, v)
    build_registry(w, inp, part)
    lo, hi = part.get("idlo", 0), part.get("idhi", 255)
    n = draw_id(inp, "n", part, lo, hi)
    c = 255 if (hi < 255 and inp.bool("sys")) else draw_id(inp, "c", part, lo, hi)
    ack = 0
    conv = None
    if cmd == 3:
        types = {"a": [0, 22], "b": INTERNAL_TYPES[2:] if False else [11, 12, 21, 32, 5, 9, 18]}.get(part.get("sub"), INTERNAL_TYPES)
        t = types[inp.pick("ti", len(types))]
        if c != 255:
            raise Reject
        if t == 0:
            p = BATTERY_TEXTS[inp.pick("bt", len(BATTERY_TEXTS))]
            try:
                r = round(float(p))
                conv = ("ok", r)
            except (ValueError, OverflowError):
                conv = ("bad",)
        elif t == 22:
            p = HEARTBEAT_TEXTS[inp.pick("ht", len(HEARTBEAT_TEXTS))]
            try:
                conv = ("ok", int(p))
            except ValueError:
                conv = ("bad",)
        else:
            p = inp.str("p", 1, exclude=LINE_TERMINATORS, no_trailing_ws=True)
    elif cmd == 4:
        t = inp.int("t", 0, 5)
        if c != 255:
            raise Reject
        p = ""
    else:
        t = inp.int("t", 0, part.get("tvhi", 40))
        if cmd == 1 and inp.bool("same_as_stored"):
            p = "v0"  # a set that repeats the stored value
        else:
            p = inp.str("p", 1, exclude=LINE_TERMINATORS, no_trailing_ws=True)
        if c == 255 and cmd != 0:
            raise Reject
        if cmd == 0 and c == 255 and n == 0:
            raise Reject  # gateway presentation = version report (C05)
    line = M.line(n, c, cmd, ack, t, p)
    kind, val, writes = w.feed(line)
    if cmd == 3 and t == 0 and conv[0] == "ok" and not (0 <= conv[1] <= 100):
        # out-of-range battery: stored as given, or rejected (see ASSUMPTIONS)
        if kind != "msg":
            conv = ("bad",)
    out, _mw = M.step(w.st, n, c, cmd, ack, t, p, conv=conv)
    compare_outcome(kind, val, out, n, c, cmd, ack, t, p)
    compare_registry(w.gw, w.st)
    check_consistency(w.gw)
    return [out.kind, cmd]


def sym_order(inp, part):
    """k lines through ONE listen() generator: each handled line is yielded exactly once, in
    arrival order, and the registry holds the latest payload per (child, type)."""
    v = part["version"]
    w = World(inp, v)
    lo, hi = (10, 99) if part.get("tier") != "thorough" else (1, 254)
    a = inp.int("a", lo, hi)
    ca = inp.int("ca", lo, hi)
    w.add_node(a)
    w.add_child(a, ca)
    agen = w.gw.listen()
    lines = []
    evs = []
    for i in range(part["steps"]):
        kind_i = inp.pick("k%d" % i, 3)
        if kind_i == 0:  # set on the known child
            ev = (a, ca, 1, 0, inp.int("t%d" % i, 0, 9), "p%d" % i)
        elif kind_i == 1:  # child presentation (new or replacing)
            ev = (a, inp.int("c%d" % i, lo, hi), 0, 0, 7, "desc%d" % i)
        else:  # sketch name
            ev = (a, 255, 3, 0, 11, "name%d" % i)
        evs.append(ev)
        lines.append(M.line(*ev))
    w.tr.lines.extend(lines)
    for i, ev in enumerate(evs):
        try:
            m = run(agen.__anext__())
        except (Reject, Violation):
            raise
        except Exception as e:  # noqa: BLE001
            raise Violation("order:unexpected-error:%s" % type(e).__name__, "line %d %r: %s" % (i, lines[i], str(e)[:150]))
        if len(w.tr.lines) != len(evs) - i - 1:
            raise Violation("order:reads-per-yield", "after yield %d the transport has %d unread lines, expected %d" % (i, len(w.tr.lines), len(evs) - i - 1))
        out, _ = M.step(w.st, *ev)
        compare_outcome("msg", m, out, *ev, what="order")
    compare_registry(w.gw, w.st, "order")
    return ["order-ok", len(evs)]
