"""C01 - wire codec round trip (MessageSchema.dump / load; Gateway.send -> Gateway.listen)."""
from __future__ import annotations

from harness.common import LINE_TERMINATORS, VERSIONS, Reject, Violation, listen_step, new_gateway, run, stub_repr

PROPERTY = "C01"
BOUNDS = {
    "quick": "node,child sym [0,255]; ack sym [0,1]; type sym [-1,99]; payload symbolic unicode (';' allowed, no line terminator, no trailing whitespace, no lone surrogate) |p|<=1, and |p|<=2 for set messages under 2.2; versions 1.4 and 2.2 x 5 commands, 1.5/2.0/2.1 x internal; long payloads: concrete prefixes of 24/63/255 characters + ';' + symbolic tail (versions 1.4, 2.2); decode-mutate-decode-again; re-encode with 4 trailing-whitespace variants (set, type [0,9], |p|<=1, versions 1.5, 2.1); gateway send->listen under 2.0 (node [0,99], type [0,9], |p|<=1)",
    "thorough": "node,child sym [0,255]; ack; type sym [-3,100000]; |p|<=3; 5 versions x 5 commands; re-encode 5 versions x 5 commands (type [0,999], |p|<=2); gateway send->listen 5 versions x {set, internal} (node [0,255], type [0,9], |p|<=1)",
}
REALISED = ["negative type numbers are realised by CrossHair's int() model (window [-3,-1])"]
STUBS = ["RecTransport (gateway variant)", "Message.__repr__ -> constant"]
ASSUMPTIONS = [
    "payload longer than the bound and |type| > 100000 are outside the claim",
    "line terminators = str.splitlines() set; trailing whitespace = str.isspace() on the last code point",
    "CrossHair's models of str.rstrip/split/join/int/str and z3 are trusted; every path's model is re-run concretely",
]
MUST_REACH = ["roundtrip-ok", "reencode-ok", "gateway-roundtrip-ok"]


def partitions(tier):
    q = tier == "quick"
    parts = []
    for v in VERSIONS:
        for cmd in range(5):
            if q and v not in ("1.4", "2.2") and cmd != 3:
                continue  # the codec only reads protocol constants that are shared objects across versions; thorough runs the full grid
            deep = (not q) or (cmd == 1 and v == "2.2")
            parts.append({"name": "codec-%s-cmd%d" % (v, cmd), "fn": "sym_roundtrip", "version": v, "cmd": cmd,
                          "maxlen": (2 if deep else 1) if q else 3, "tlo": -1 if q else -3, "thi": 99 if q else 100000,
                          "budget": 400 if q else 3000, "cost": 3 if deep else 2})
        for cmd in ([1] if q else range(5)):
            if q and v not in ("1.5", "2.1"):
                continue
            parts.append({"name": "reencode-%s-cmd%d" % (v, cmd), "fn": "sym_reencode", "version": v, "cmd": cmd,
                          "maxlen": 1 if q else 2, "tlo": 0, "thi": 9 if q else 999,
                          "budget": 400 if q else 3000, "cost": 3})
    for v in (("1.4", "2.2") if q else VERSIONS):
        parts.append({"name": "codec-long-%s" % v, "fn": "sym_roundtrip", "version": v, "cmd": 1, "maxlen": 1, "tlo": 0, "thi": 9,
                      "idlo": 10, "idhi": 99, "prefixes": [24, 63, 255], "budget": 400 if q else 2000, "cost": 4})
    for v in VERSIONS if not q else ["2.0"]:
        for cmd in (1, 3):
            parts.append({"name": "gateway-%s-cmd%d" % (v, cmd), "fn": "sym_gateway_roundtrip", "version": v, "cmd": cmd,
                          "maxlen": 1, "tlo": 0, "thi": 9, "idlo": 10 if q else 0, "idhi": 99 if q else 255,
                          "budget": 400 if q else 3000, "cost": 4 if q else 12})
    return parts


def setup(part):
    stub_repr()


def wellformed(n, c, cmd, ack, t):
    """The cross-field rules as the property states them (C02)."""
    if cmd in (3, 4) and c != 255 and not (cmd == 3 and (t == 3 or t == 4)):
        return False
    if c == 255 and (cmd == 1 or cmd == 2):
        return False
    return True


def payload_ok(p):
    for ch in p:
        if ch in LINE_TERMINATORS:
            return False
    if len(p) > 0 and p[len(p) - 1].isspace():
        return False
    return True


def _fields(inp, part):
    n = inp.int("n", part.get("idlo", 0), part.get("idhi", 255))
    c = inp.int("c", 0, 255)
    ack = inp.int("ack", 0, 1)
    t = inp.int("t", part["tlo"], part["thi"])
    p = inp.str("p", part["maxlen"], exclude=LINE_TERMINATORS, no_trailing_ws=True)
    if part.get("prefixes"):
        # long payloads: a concrete prefix of one of several lengths (around typical size limits) + symbolic tail
        k = part["prefixes"][inp.pick("prefix_len", len(part["prefixes"]))]
        p = ("0123456789abcdef" * 64)[:k] + ";" + p
    cmd = part["cmd"] if "cmd" in part else inp.pick("cmd", 5)
    if not wellformed(n, c, cmd, ack, t):
        raise Reject
    return n, c, cmd, ack, t, p


def _cmp(m, n, c, cmd, ack, t, p, what):
    if m.node_id != n:
        raise Violation("%s:node_id" % what, "decoded %r, sent %r" % (m.node_id, n))
    if m.child_id != c:
        raise Violation("%s:child_id" % what, "decoded %r, sent %r" % (m.child_id, c))
    if m.command != cmd:
        raise Violation("%s:command" % what, "decoded %r, sent %r" % (m.command, cmd))
    if m.ack != ack:
        raise Violation("%s:ack" % what, "decoded %r, sent %r" % (m.ack, ack))
    if m.message_type != t:
        raise Violation("%s:message_type" % what, "decoded %r, sent %r" % (m.message_type, t))
    if m.payload != p:
        raise Violation("%s:payload" % what, "decoded %r, sent %r" % (m.payload, p))


def sym_roundtrip(inp, part):
    from aiomysensors.model.message import Message, MessageSchema
    from aiomysensors.model.protocol import get_protocol

    schema = MessageSchema()
    schema.set_protocol(get_protocol(part["version"]))
    n, c, cmd, ack, t, p = _fields(inp, part)
    m = Message(n, c, cmd, ack, t, p)
    try:
        line = schema.dump(m)
    except Exception as e:  # noqa: BLE001
        raise Violation("encode-raises:%s" % type(e).__name__, str(e)[:200])
    expect = str(n) + ";" + str(c) + ";" + str(cmd) + ";" + str(ack) + ";" + str(t) + ";" + p + "\n"
    if line != expect:
        raise Violation("encode-format", "dump gave %r, expected %r" % (line, expect))
    try:
        m2 = schema.load(line)
    except Exception as e:  # noqa: BLE001
        raise Violation("decode-raises:%s" % type(e).__name__, "line %r: %s" % (line, str(e)[:200]))
    _cmp(m2, n, c, cmd, ack, t, p, "roundtrip")
    # the application may do what it likes with a decoded message; decoding the same line again
    # must still give the spelled values
    m2.payload = "changed-by-the-application"
    m2.command = 2
    m2.node_id = 7
    try:
        m4 = schema.load(line)
    except Exception as e:  # noqa: BLE001
        raise Violation("decode-again-raises:%s" % type(e).__name__, "line %r: %s" % (line, str(e)[:200]))
    _cmp(m4, n, c, cmd, ack, t, p, "decode-again")
    return ["roundtrip-ok", len(p)]


def sym_reencode(inp, part):
    """(C) decode a well-formed plain-decimal line followed by trailing whitespace, re-encode."""
    from aiomysensors.model.message import MessageSchema
    from aiomysensors.model.protocol import get_protocol

    schema = MessageSchema()
    schema.set_protocol(get_protocol(part["version"]))
    n, c, cmd, ack, t, p = _fields(inp, part)
    expect = str(n) + ";" + str(c) + ";" + str(cmd) + ";" + str(ack) + ";" + str(t) + ";" + p + "\n"
    k = inp.pick("ws", 4)
    ws = ["", "\r", " ", "\r\n \t"][k]
    line2 = expect[: len(expect) - 1] + ws + "\n"
    try:
        m3 = schema.load(line2)
        line3 = schema.dump(m3)
    except Exception as e:  # noqa: BLE001
        raise Violation("reencode-raises:%s" % type(e).__name__, "line %r: %s" % (line2, str(e)[:200]))
    if line3 != expect:
        raise Violation("reencode", "load+dump of %r gave %r, expected %r" % (line2, line3, expect))
    return ["reencode-ok", k]


def sym_gateway_roundtrip(inp, part):
    """Gateway.send on one gateway, the written line fed to a second gateway's listen()."""
    from aiomysensors.model.message import Message

    n, c, cmd, ack, t, p = _fields(inp, part)
    if cmd == 3 and not (0 <= t <= 14):
        raise Reject  # the receiving handler's type gate is C05's subject
    if cmd == 3 and (t == 2 or t == 0 or t == 3 or t == 14):
        raise Reject  # version / battery / id request / ready handlers interpret the payload or react (C03, C06, C11)
    gw1, tr1 = new_gateway(inp, part["version"])
    m = Message(n, c, cmd, ack, t, p)
    try:
        run(gw1.send(m, message_buffer=False))
    except Exception as e:  # noqa: BLE001
        raise Violation("send-raises:%s" % type(e).__name__, str(e)[:200])
    if len(tr1.writes) != 1:
        raise Violation("send-writes", "send wrote %d lines" % len(tr1.writes))
    gw2, tr2 = new_gateway(inp, part["version"], lines=[tr1.writes[0]])
    if cmd == 1:
        from harness.common import mk_add_node

        nd = mk_add_node(inp, gw2, n)
        nd.add_child(c, 6)
    kind, val = listen_step(gw2)
    if kind == "err":
        if cmd == 3 and type(val).__name__ in ("MissingNodeError",):
            return ["gateway-roundtrip-needs-node", 0]
        raise Violation("listen-raises:%s" % type(val).__name__, "line %r: %s" % (tr1.writes[0], str(val)[:200]))
    _cmp(val, n, c, cmd, ack, t, p, "gateway-roundtrip")
    return ["gateway-roundtrip-ok", len(p)]
