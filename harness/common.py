"""Shared harness pieces: coroutine driver, recording transport, symbolic maps, gateway builder."""
from __future__ import annotations

import os

from sx.inputs import Reject, Violation  # noqa: F401

VERSIONS = ["1.4", "1.5", "2.0", "2.1", "2.2"]
NO_CH = bool(os.environ.get("SX_NO_CROSSHAIR"))


class Suspended(Exception):
    """A coroutine suspended where the harness expected it to run to completion."""


def run(coro):
    """Drive a coroutine that never really suspends (all awaited stubs return at once)."""
    try:
        y = coro.send(None)
    except StopIteration as s:
        return s.value
    coro.close()
    raise Suspended(repr(y))


def symmap(inp, items=()):
    """A mapping that keeps symbolic keys symbolic (equality instead of hashing) in symbolic
    mode, a plain dict in concrete mode.  Insertion ordered in both."""
    if getattr(inp, "symbolic", False):
        from crosshair.core import NoTracing
        from crosshair.simplestructs import ShellMutableMap, SimpleDict

        class SymMap(ShellMutableMap):
            """+ dict's rule that the size must not change while it is being iterated"""

            def __iter__(self):
                n = len(self)
                for k in ShellMutableMap.__iter__(self):
                    yield k
                    if len(self) != n:
                        raise RuntimeError("dictionary changed size during iteration")

        with NoTracing():
            m = SymMap(SimpleDict([]))
        for k, v in items:
            m[k] = v
        return m
    return dict(items)


class RecTransport:
    """Transport stub: read() returns the next supplied line, write() records.

    fail: optional callable(index_of_write_attempt) -> bool; True => raise TransportFailedError.
    """

    def __init__(self, lines=None, fail=None):
        self.lines = list(lines or [])
        self.writes = []
        self.attempts = 0
        self.fail = fail
        self.on_write = None
        self.connected = False

    async def connect(self):
        self.connected = True

    async def disconnect(self):
        self.connected = False

    async def read(self):
        return self.lines.pop(0)

    async def write(self, decoded_message):
        from aiomysensors.exceptions import TransportFailedError

        i = self.attempts
        self.attempts += 1
        r = self.fail(i) if self.fail is not None else None
        if r:
            # the Transport contract: "method callers should handle TransportError" - a fault may be
            # the base class or any subclass
            exc = r if isinstance(r, type) else TransportFailedError
            raise exc("injected write fault %d" % i)
        if self.on_write is not None:
            self.on_write(decoded_message)
        self.writes.append(decoded_message)


def install_node_subclass(inp):
    """Handlers create Node(...) whose `children or {}` would be a real dict; in symbolic mode
    swap in a subclass that replaces the empty dict by a symbolic map (DESIGN 2.4)."""
    from aiomysensors.model import node as node_mod
    from aiomysensors.model.protocol import protocol_14

    base = node_mod.Node
    if not getattr(inp, "symbolic", False):
        protocol_14.Node = base
        return base

    class SymNode(base):  # type: ignore[misc,valid-type]
        def __init__(self, *a, **kw):
            super().__init__(*a, **kw)
            if type(self.children) is dict and not self.children:
                self.children = symmap(inp)

    SymNode.__name__ = "Node"
    SymNode.__qualname__ = "Node"
    protocol_14.Node = SymNode
    return SymNode


def new_gateway(inp, version, lines=None, fail=None, metric=True):
    """A Gateway on a RecTransport with registry/buffers as symbolic maps (symbolic mode)."""
    from aiomysensors.gateway import Config, Gateway

    tr = RecTransport(lines, fail)
    gw = Gateway(tr, Config(metric=metric))
    if version is not None:
        gw.protocol_version = version
    gw.nodes = symmap(inp)
    gw._message_buffer.set_messages = symmap(inp)
    gw._message_buffer.internal_messages = symmap(inp)
    install_node_subclass(inp)
    return gw, tr


def listen_step(gw, agen=None):
    """One step of listen(): ('msg', Message) | ('err', exception)."""
    agen = agen if agen is not None else gw.listen()
    try:
        return ("msg", run(agen.__anext__()))
    except (Reject, Violation, Suspended):
        raise
    except Exception as e:  # noqa: BLE001 - classification is the point
        return ("err", e)


def exc_class(e):
    from aiomysensors.exceptions import AIOMySensorsError

    return ("lib:" if isinstance(e, AIOMySensorsError) else "foreign:") + type(e).__name__


def stub_repr():
    """Message/Node/Child __repr__ -> constant: formatting is not the subject (DESIGN 2.4)."""
    from aiomysensors.model import message, node

    import marshmallow.validate as mv

    if getattr(mv.Range, "_sx_stubbed", False):
        return

    def tracing():
        if NO_CH:
            return False
        try:
            from crosshair.tracers import is_tracing

            return is_tracing()
        except Exception:  # noqa: BLE001
            return False

    # Formatting a symbolic value realises it (one path per value).  Error *texts* and reprs are not
    # the subject of any property, so they are constant WHILE TRACING ONLY: the concrete twin of every
    # path and the stand-alone replay run the real formatting code (a crash in it is still found).
    o_range, o_oneof = mv.Range._format_error, mv.OneOf._format_error
    o_mr, o_nr, o_cr = message.Message.__repr__, node.Node.__repr__, node.Child.__repr__
    mv.Range._format_error = lambda self, value, message: message if tracing() else o_range(self, value, message)
    mv.OneOf._format_error = lambda self, value: self.error if tracing() else o_oneof(self, value)
    message.Message.__repr__ = lambda self: "Message(...)" if tracing() else o_mr(self)
    node.Node.__repr__ = lambda self: "Node(...)" if tracing() else o_nr(self)
    node.Child.__repr__ = lambda self: "Child(...)" if tracing() else o_cr(self)
    mv.Range._sx_stubbed = True


def mk_add_node(inp, gw, node_id, node_type=17, version="2.0", **kw):
    from aiomysensors.model.protocol import protocol_14

    n = protocol_14.Node(node_id, node_type, version, **kw)
    if getattr(inp, "symbolic", False) and type(n.children) is dict:
        n.children = symmap(inp, list(n.children.items()))
    gw.nodes[node_id] = n
    return n


LINE_TERMINATORS = "\n\r\x0b\x0c\x1c\x1d\x1e\x85  "
