"""Helpers for the persistence harnesses (C13-C16): fake file system wiring, registry snapshots."""
from __future__ import annotations

import json as real_json

from harness.common import Reject, Violation, run
from sx.fsmodel import FS, Crashed, FakeAiofiles, FakeJson, SyncOs

PATH = "/data/mysensors.json"


def wire(fs, symbolic_json):
    """Route persistence's file and json access to the model (restored by unwire)."""
    from aiomysensors import persistence as P

    if not hasattr(P, "_sx_real"):
        P._sx_real = (P.aiofiles, P.json, getattr(P, "os", None), getattr(P, "tempfile", None))
    P.aiofiles = FakeAiofiles(fs)
    P.json = FakeJson if symbolic_json else P._sx_real[1]
    if P._sx_real[2] is not None:
        P.os = SyncOs(fs, P._sx_real[2])
    if P._sx_real[3] is not None:
        from sx.fsmodel import FakeTempfile

        P.tempfile = FakeTempfile(fs, P._sx_real[3])
    return P


def unwire():
    from aiomysensors import persistence as P

    if hasattr(P, "_sx_real"):
        P.aiofiles, P.json = P._sx_real[0], P._sx_real[1]
        if P._sx_real[2] is not None:
            P.os = P._sx_real[2]
        if P._sx_real[3] is not None:
            P.tempfile = P._sx_real[3]


def snapshot(nodes):
    """Registry as plain comparable data (dict order free)."""
    out = []
    for nid, nd in nodes.items():
        children = []
        for cid, ch in nd.children.items():
            values = [(t, v) for t, v in ch.values.items()]
            children.append((cid, ch.child_id, ch.child_type, ch.description, values))
        out.append((nid, nd.node_id, nd.node_type, nd.protocol_version, nd.sketch_name, nd.sketch_version,
                    nd.battery_level, nd.heartbeat, nd.sleeping, children))
    return out


def _find(alist, key):
    for item in alist:
        if item[0] == key:
            return item
    return None


def compare_snapshots(got, want, what):
    """Field by field; raises Violation naming the first difference."""
    if len(got) != len(want):
        raise Violation("%s:node-count" % what, "loaded %d nodes, saved %d" % (len(got), len(want)))
    names = ("key", "node_id", "node_type", "protocol_version", "sketch_name", "sketch_version", "battery_level", "heartbeat", "sleeping")
    for w in want:
        g = _find(got, w[0])
        if g is None:
            raise Violation("%s:node-missing" % what, "node %r not loaded" % (w[0],))
        for i in range(1, 9):
            if g[i] != w[i]:
                raise Violation("%s:node.%s" % (what, names[i]), "node %r: %s loaded as %r, saved %r" % (w[0], names[i], g[i], w[i]))
        gc, wc = g[9], w[9]
        if len(gc) != len(wc):
            raise Violation("%s:child-count" % what, "node %r: loaded %d children, saved %d" % (w[0], len(gc), len(wc)))
        for c in wc:
            d = _find(gc, c[0])
            if d is None:
                raise Violation("%s:child-missing" % what, "node %r child %r not loaded" % (w[0], c[0]))
            for i, nm in ((1, "child_id"), (2, "child_type"), (3, "description")):
                if d[i] != c[i]:
                    raise Violation("%s:child.%s" % (what, nm), "node %r child %r: %s loaded as %r, saved %r" % (w[0], c[0], nm, d[i], c[i]))
            if len(d[4]) != len(c[4]):
                raise Violation("%s:value-count" % what, "node %r child %r: loaded %d values, saved %d" % (w[0], c[0], len(d[4]), len(c[4])))
            for t, v in c[4]:
                e = _find(d[4], t)
                if e is None or e[1] != v:
                    raise Violation("%s:value" % what, "node %r child %r type %r: loaded %r, saved %r" % (w[0], c[0], t, e, v))


def _same_kind(a, b):
    return isinstance(a, (int, str, bool)) and isinstance(b, (int, str, bool))


def load_into(fs, symbolic_json, path=PATH):
    """Persistence.load into an empty registry: ('ok', nodes) | ('err', exception)."""
    P = wire(fs, symbolic_json)
    nodes = {}
    pers = P.Persistence(nodes, path)
    try:
        run(pers.load())
    except (Reject, Violation, Crashed):
        raise
    except Exception as e:  # noqa: BLE001
        return ("err", e)
    return ("ok", nodes)


def save_from(fs, nodes, symbolic_json, path=PATH):
    P = wire(fs, symbolic_json)
    pers = P.Persistence(nodes, path)
    run(pers.save())
