"""C02 - the decoder accepts exactly the well-formed lines and decodes them literally."""
from __future__ import annotations

from harness.common import VERSIONS, Reject, Violation, listen_step, new_gateway, stub_repr

PROPERTY = "C02"
BOUNDS = {
    "quick": "k=6 core: node,child sym [0,255], ack sym [0,1], type sym [0,40], command 0..4, payload |p|<=1; single-fault: one of the five numeric positions carries an out-of-range symbolic integer (node/child [-2,-1]u[256,258], command [-2,-1]u[5,7], ack [-2,-1]u[2,3]) or a text from an 18-element class list (non-numbers, and non-canonical spellings such as '+5', ' 7', '0255', '03'), other ids sym [10,99]; field count k sym [0,8] x 3 terminators (child [10,99]); versions: core on 1.4 and 2.2, others on all five; gateway exception class on field-count and class-list lines",
    "thorough": "as quick on all five versions with other ids sym [0,255] in the single-fault scheme; plus the joint window node,child [-1,256] x ack [-1,2] x type [-1,40] x command [-1,5] (all faults at once)",
}
REALISED = ["negative integers are realised by CrossHair's int() model", "class-list texts are concrete"]
STUBS = ["RecTransport (gateway variant)", "Message.__repr__ -> constant"]
ASSUMPTIONS = [
    "texts that Python's int() accepts although they are not plain decimal (' 7', '1_0', '+5', Arabic-Indic digits) are don't-care for acceptance; if accepted the decoded value must equal int(text)",
    "two or more simultaneously faulty fields are only covered by the thorough joint window",
]
MUST_REACH = ["accept", "reject", "short-reject", "long-accept", "gw-reject"]

# text, int() value or None
CLASS_TEXTS = [("", None), ("abc", None), ("1.0", None), (" ", None), ("0x1", None), ("1e2", None),
               ("٣", 3), (" 7", 7), ("1_0", 10), ("+5", 5),
               # other spellings of boundary values: the cross-field rules must look at the decoded value
               ("²", None), ("0255", 255), ("+255", 255), (" 255", 255), ("2_5_5", 255), ("03", 3), ("+4", 4), ("01", 1), ("00", 0)]
TERMS = ["\n", "", "\r\n"]


def partitions(tier):
    q = tier == "quick"
    parts = []
    for v in VERSIONS:
        for cmd in range(5):
            if q and v not in ("1.4", "2.2") and cmd != 3:
                continue  # thorough: full grid; quick: the internal command on every version (its id-request exemption is a per-module constant)
            if True:
                parts.append({"name": "core-%s-cmd%d" % (v, cmd), "fn": "sym_core", "version": v, "cmd": cmd,
                              "budget": 400 if q else 1500, "cost": 3})
        for j in range(5):
            if q and v not in ("1.5", "2.0", "2.2"):
                continue
            parts.append({"name": "fault-%s-f%d" % (v, j), "fn": "sym_fault", "version": v, "pos": j,
                          "olo": 10 if q else 0, "ohi": 99 if q else 255, "budget": 400 if q else 2400, "cost": 4})
        parts.append({"name": "count-%s" % v, "fn": "sym_count", "version": v, "budget": 400 if q else 1500, "cost": 3})
        if not q or v in ("1.4", "2.1"):
            parts.append({"name": "gateway-%s" % v, "fn": "sym_gateway", "version": v, "budget": 400 if q else 1500, "cost": 3})
        if not q:
            for cmd in range(-1, 6):
                parts.append({"name": "joint-%s-cmd%d" % (v, cmd), "fn": "sym_joint", "version": v, "cmd": cmd,
                              "budget": 3000, "cost": 10})
    return parts


def setup(part):
    stub_repr()


def oracle(n, c, cmd, ack, t):
    """Accept predicate as spelled in the property statement."""
    if not (0 <= n <= 255 and 0 <= c <= 255 and 0 <= cmd <= 4 and (ack == 0 or ack == 1)):
        return False
    if (cmd == 3 or cmd == 4) and c != 255 and not (cmd == 3 and (t == 3 or t == 4)):
        return False
    if c == 255 and (cmd == 1 or cmd == 2):
        return False
    return True


def _schema(version):
    from aiomysensors.model.message import MessageSchema
    from aiomysensors.model.protocol import get_protocol

    s = MessageSchema()
    s.set_protocol(get_protocol(version))
    return s


def _load(schema, line):
    """('ok', msg) | ('rej',) ; any exception other than ValidationError is a violation."""
    from marshmallow import ValidationError

    try:
        return ("ok", schema.load(line))
    except ValidationError:
        return ("rej",)
    except (Reject, Violation):
        raise
    except Exception as e:  # noqa: BLE001
        raise Violation("foreign-exception:%s" % type(e).__name__, "load(%r) raised %s: %s" % (line, type(e).__name__, str(e)[:200]))


def _check(res, line, want_accept, vals, payload):
    """vals: expected ints for the five numeric fields."""
    if want_accept is True and res[0] != "ok":
        raise Violation("rejects-wellformed", "load(%r) rejected a well-formed line" % (line,))
    if want_accept is False and res[0] == "ok":
        raise Violation("accepts-malformed", "load(%r) accepted a malformed line as %r" % (line, vars(res[1])))
    if res[0] == "ok":
        m = res[1]
        got = (m.node_id, m.child_id, m.command, m.ack, m.message_type)
        for name, g, w in zip(("node_id", "child_id", "command", "ack", "message_type"), got, vals):
            if g != w:
                raise Violation("decodes-wrong:%s" % name, "load(%r) gave %s=%r, the line spells %r" % (line, name, g, w))
        if m.payload != payload:
            raise Violation("decodes-wrong:payload", "load(%r) gave payload %r, the line spells %r" % (line, m.payload, payload))
        return "accept"
    return "reject"


def _payload(inp):
    from harness.common import LINE_TERMINATORS

    return inp.str("p", 1, exclude=LINE_TERMINATORS, no_trailing_ws=True)


def sym_core(inp, part):
    schema = _schema(part["version"])
    cmd = part["cmd"]
    n = inp.int("n", 0, 255)
    c = inp.int("c", 0, 255)
    ack = inp.int("ack", 0, 1)
    t = inp.int("t", 0, 40)
    p = _payload(inp)
    term = TERMS[inp.pick("term", 3)] if part.get("tier") == "thorough" else "\n"
    line = str(n) + ";" + str(c) + ";" + str(cmd) + ";" + str(ack) + ";" + str(t) + ";" + p + term
    res = _load(schema, line)
    return [_check(res, line, oracle(n, c, cmd, ack, t), (n, c, cmd, ack, t), p)]


def sym_joint(inp, part):
    schema = _schema(part["version"])
    cmd = part["cmd"]
    n = inp.int("n", -1, 256)
    c = inp.int("c", -1, 256)
    ack = inp.int("ack", -1, 2)
    t = inp.int("t", -1, 40)
    line = str(n) + ";" + str(c) + ";" + str(cmd) + ";" + str(ack) + ";" + str(t) + ";x\n"
    res = _load(schema, line)
    return [_check(res, line, oracle(n, c, cmd, ack, t), (n, c, cmd, ack, t), "x")]


def sym_fault(inp, part):
    """Exactly one numeric position is out of range or non-numeric."""
    schema = _schema(part["version"])
    pos = part["pos"]
    n = inp.int("n", part["olo"], part["ohi"])
    cmd = inp.pick("cmd", 4)  # presentation / set / req address an ordinary child, internal the system child
    c = inp.int("c", part["olo"], part["ohi"]) if cmd != 3 else 255
    ack = inp.int("ack", 0, 1)
    t = inp.int("t", 0, 9)
    vals = [n, c, cmd, ack, t]
    texts = [str(n), str(c), str(cmd), str(ack), str(t)]
    kind = inp.pick("kind", 2 if pos < 4 else 1)
    want = False
    if kind == 1:
        # out-of-range integer (the type field has no range, so position 4 only gets texts)
        lo, hi = [(0, 255), (0, 255), (0, 4), (0, 1)][pos]
        side = inp.pick("side", 2)
        bad = inp.int("bad", lo - 2, lo - 1) if side == 0 else inp.int("bad", hi + 1, hi + 3)
        if pos == 2 and bad == 5:
            pass
        vals[pos] = bad
        texts[pos] = str(bad)
    else:
        k = inp.pick("text", len(CLASS_TEXTS))
        text, val = CLASS_TEXTS[k]
        texts[pos] = text
        if val is None:
            want = False
        else:
            want = None  # don't care for acceptance; value must be int(text) if accepted
            vals[pos] = val
            if not oracle(*vals):
                want = False
    line = ";".join(texts) + ";pay\n"
    res = _load(schema, line)
    return [_check(res, line, want, vals, "pay")]


def sym_count(inp, part):
    """Field count k in [0,8]; all fields valid. k<6 must be rejected, k>=6 accepted with the
    surplus fields being part of the payload."""
    schema = _schema(part["version"])
    n = inp.int("n", 0, 255)
    c = inp.int("c", 10, 99) if part.get("tier") != "thorough" else inp.int("c", 0, 254)
    cmd = inp.pick("cmd", 3)
    fields = [str(n), str(c), str(cmd), "0", "7", "a", "b", "c"]
    k = inp.pick("k", 9)
    term = TERMS[inp.pick("term", 3)]
    line = ";".join(fields[:k]) + term
    res = _load(schema, line)
    if k < 6:
        _check(res, line, False, None, None)
        return ["short-reject", k]
    _check(res, line, True, (n, c, cmd, 0, 7), ";".join(fields[5:k]))
    return ["long-accept", k]


def sym_gateway(inp, part):
    """Gateway.listen turns exactly the schema's rejections into InvalidMessageError."""
    from aiomysensors.exceptions import InvalidMessageError

    n = inp.int("n", 1, 254)
    which = inp.pick("which", 3)
    if which == 0:
        k = inp.pick("k", 6)
        line = ";".join([str(n), "3", "1", "0", "2"][:k]) + "\n"
    elif which == 1:
        pos = inp.pick("pos", 5)
        text, val = CLASS_TEXTS[inp.pick("text", 6)]
        f = [str(n), "3", "1", "0", "2"]
        f[pos] = text
        line = ";".join(f) + ";x\n"
    else:
        bad = inp.int("bad", 256, 300)
        line = str(bad) + ";3;1;0;2;x\n"
    gw, tr = new_gateway(inp, part["version"], lines=[line])
    kind, val = listen_step(gw)
    if kind == "msg":
        raise Violation("gateway-accepts-malformed", "listen() yielded a message for %r" % (line,))
    if not isinstance(val, InvalidMessageError):
        raise Violation("gateway-foreign-exception:%s" % type(val).__name__, "listen() on %r raised %s: %s" % (line, type(val).__name__, str(val)[:200]))
    if tr.writes:
        raise Violation("gateway-writes-on-invalid", "listen() on %r wrote %r" % (line, tr.writes))
    return ["gw-reject", which]
