"""Bounded symbolic inputs (and their concrete twin) for sx harnesses."""
from __future__ import annotations


class Reject(Exception):
    """Precondition of the harness not met on this path (path is discarded, not a failure)."""


class Violation(Exception):
    """The property's assertion failed on this path.

    key: short stable class of the failure (used to dedupe and to match known findings)
    msg: human readable detail
    """

    def __init__(self, key, msg=""):
        super().__init__("%s: %s" % (key, msg))
        self.key = key
        self.msg = msg


class WitnessMismatch(Exception):
    """The concrete twin asked for an input the symbolic path never created."""


import os

_STUB_NAMES = ("_File", "_Ctx", "FakeAiofiles", "FakeJson", "SyncOs", "_FakeOs", "_FakePath", "FakeWriter", "FakeBrokerClient", "RecTransport",
               "SuspendingTransport", "LifeTransport", "DuckReader", "FakeClock", "StubAV", "Token", "SymNode", "SymChild", "ShellMutableMap")
_REPO_SRC = os.path.join(os.environ.get("VERIF_REPO", "/repo"), "src") + os.sep


def origin(e):
    """'escaped' if the exception was raised by the code under test (innermost frame in /repo/src) and
    is not about one of our stubs lacking something; otherwise 'harness' (reported as inconclusive)."""
    tb = e.__traceback__
    last = None
    while tb is not None:
        last = tb
        tb = tb.tb_next
    if last is None:
        return "harness"
    fn = last.tb_frame.f_code.co_filename
    text = str(e)
    if fn.startswith(_REPO_SRC) and not any(nm in text for nm in _STUB_NAMES):
        return "escaped"
    return "harness"


def jsonable(x):
    if isinstance(x, (str, int, float, bool)) or x is None:
        if isinstance(x, bool):
            return bool(x)
        if isinstance(x, int):
            return int(x)
        if isinstance(x, str):
            return str(x)
        return x
    if isinstance(x, bytes):
        return {"__bytes__": x.hex()}
    if isinstance(x, (list, tuple)):
        return [jsonable(i) for i in x]
    if isinstance(x, (set, frozenset)):
        return sorted((jsonable(i) for i in x), key=repr)
    if isinstance(x, dict):
        return {str(k): jsonable(v) for k, v in x.items()}
    return repr(x)


def unjson(x):
    if isinstance(x, dict) and set(x) == {"__bytes__"}:
        return bytes.fromhex(x["__bytes__"])
    return x


WHITESPACE = [9, 10, 11, 12, 13, 28, 29, 30, 31, 32, 133, 160, 5760] + list(range(8192, 8203)) + [8232, 8233, 8239, 8287, 12288]
assert all(chr(w).isspace() for w in WHITESPACE) and sum(chr(i).isspace() for i in range(0x110000)) == len(WHITESPACE)


class ConcreteInputs:
    symbolic = False

    def __init__(self, witness):
        self.w = {k: unjson(v) for k, v in witness.items()}
        self.asked = []

    def _get(self, name):
        self.asked.append(name)
        if name not in self.w:
            raise WitnessMismatch(name)
        return self.w[name]

    def int(self, name, lo, hi):
        v = self._get(name)
        if not (lo <= v <= hi):
            raise Reject
        return v

    def bool(self, name):
        return self._get(name) == 1

    def str(self, name, maxlen, exclude="", no_trailing_ws=False, allow_surrogates=False):
        v = self._get(name)
        if len(v) > maxlen:
            raise Reject
        for ch in v:
            if ch in exclude or (not allow_surrogates and 0xD800 <= ord(ch) < 0xE000):
                raise Reject
        if no_trailing_ws and v and v[-1].isspace():
            raise Reject
        return v

    def bytes(self, name, maxlen):
        v = self._get(name)
        if len(v) > maxlen:
            raise Reject
        return v

    def choice(self, name, options):
        return options[self.int(name, 0, len(options) - 1)]

    def pick(self, name, n):
        return self.int(name, 0, n - 1)


class Inputs:
    """Named symbolic inputs created inside a harness; recorded for witness extraction."""

    symbolic = True

    def __init__(self):
        self.vals = {}

    def int(self, name, lo, hi):
        import z3
        from crosshair.core import NoTracing
        from crosshair.libimpl.builtinslib import SymbolicInt
        from crosshair.statespace import context_statespace

        with NoTracing():
            space = context_statespace()
            v = SymbolicInt("%s_%s" % (name, space.uniq()))
            space.add(z3.And(v.var >= lo, v.var <= hi))
            assert name not in self.vals, name
            self.vals[name] = v
        return v

    def bool(self, name):
        return self.int(name, 0, 1) == 1

    def str(self, name, maxlen, exclude="", no_trailing_ws=False, allow_surrogates=False):
        """Symbolic unicode string, len <= maxlen, code points not in `exclude`; all constraints
        are asserted into the solver (no forks)."""
        import z3
        from crosshair.core import NoTracing
        from crosshair.libimpl.builtinslib import LazyIntSymbolicStr, SymbolicBoundedIntTuple
        from crosshair.statespace import context_statespace

        with NoTracing():
            space = context_statespace()
            banned = sorted(set(ord(ch) for ch in exclude))
            if not allow_surrogates:
                banned = sorted(set(banned) | set(range(0xD800, 0xE000)))
            ranges = []
            lo = 0
            for b in banned:
                if b > lo:
                    ranges.append((lo, b - 1))
                lo = max(lo, b + 1)
            if lo <= 0x10FFFF:
                ranges.append((lo, 0x10FFFF))
            tup = SymbolicBoundedIntTuple(ranges, "%s_%s" % (name, space.uniq()))
            space.add(tup._len.var <= maxlen)
            if no_trailing_ws and maxlen > 0:
                comps = tup._get_smt_component_prefix(maxlen)
                for i in range(maxlen):
                    cp = comps[i].var
                    space.add(z3.Implies(tup._len.var == i + 1, z3.And(*[cp != w for w in WHITESPACE])))
            v = LazyIntSymbolicStr(tup)
            assert name not in self.vals, name
            self.vals[name] = v
        return v

    def bytes(self, name, maxlen):
        from crosshair.core import NoTracing
        from crosshair.libimpl.builtinslib import SymbolicBytes, SymbolicArrayBasedUniformTuple
        from crosshair.statespace import context_statespace

        with NoTracing():
            space = context_statespace()
            arr = SymbolicArrayBasedUniformTuple("%s_%s" % (name, space.uniq()), tuple[int, ...])
            v = SymbolicBytes(arr)
            assert name not in self.vals, name
            self.vals[name] = v
        n = len(v)
        if n > maxlen:
            raise Reject
        for i in range(n):
            b = arr[i]
            if not (0 <= b < 256):
                raise Reject
        return v

    def choice(self, name, options):
        i = self.int(name, 0, len(options) - 1)
        for k in range(len(options) - 1):
            if i == k:
                return options[k]
        return options[-1]

    def pick(self, name, n):
        """Symbolic index in [0,n) forked into a concrete int."""
        i = self.int(name, 0, n - 1)
        for k in range(n - 1):
            if i == k:
                return k
        return n - 1

    def witness(self):
        from crosshair.core import deep_realize

        return {k: jsonable(deep_realize(v)) for k, v in self.vals.items()}
