"""Deterministic coroutine scheduler with a symbolic choice of the next task (C09).

asyncio is cooperative: the only preemption points are awaits that really suspend.  The stub
transport suspends in write(); at every scheduling point the index of the task to resume is a
symbolic input, so the path tree enumerates exactly the feasible interleavings."""
from __future__ import annotations


class Yield:
    def __await__(self):
        yield self


class Task:
    def __init__(self, name, coro):
        self.name = name
        self.coro = coro
        self.done = False
        self.result = None
        self.error = None
        self.steps = 0

    def step(self):
        try:
            self.coro.send(None)
        except StopIteration as s:
            self.done = True
            self.result = s.value
        except StopAsyncIteration:
            self.done = True
        except Exception as e:  # noqa: BLE001
            self.done = True
            self.error = e
        self.steps += 1


def run_all(inp, tasks, prefix="sched", max_points=64, on_step=None):
    """Run tasks to completion; at each point a symbolic index picks the next runnable task.
    Returns the schedule (list of task names)."""
    schedule = []
    point = 0
    while True:
        runnable = [t for t in tasks if not t.done]
        if not runnable:
            return schedule
        if point >= max_points:
            raise RuntimeError("scheduler: more than %d points" % max_points)
        i = 0 if len(runnable) == 1 else inp.pick("%s%d" % (prefix, point), len(runnable))
        t = runnable[i]
        t.step()
        schedule.append(t.name)
        if on_step is not None:
            on_step(t)
        point += 1
