"""Engine patches (harness process only). See DESIGN.md 2.3. Applied on import."""
from __future__ import annotations

import os
import time

import crosshair.core_and_libs  # noqa: F401
import crosshair.core as _core
import crosshair.libimpl.builtinslib as _bl
import crosshair.statespace as _ss
from crosshair.core import NoTracing
from crosshair.libimpl.builtinslib import LazyIntSymbolicStr, SymbolicInt

# --- 1. string equality: length + code-point-wise ------------------------------------------


def _patched_eq(self, other):
    with NoTracing():
        if isinstance(other, LazyIntSymbolicStr):
            b = other._codepoints
        elif isinstance(other, str):
            b = [ord(c) for c in other]
        else:
            return NotImplemented
        a = self._codepoints
    if len(a) != len(b):
        return False
    for i in range(len(a)):
        if a[i] != b[i]:
            return False
    return True


def _patched_ne(self, other):
    r = _patched_eq(self, other)
    return r if r is NotImplemented else not r


LazyIntSymbolicStr.__eq__ = _patched_eq
LazyIntSymbolicStr.__ne__ = _patched_ne

# --- 2. formatting without realisation -----------------------------------------------------

_orig_format = _bl._format


def _my_format(obj, format_spec=""):
    with NoTracing():
        kind = 0
        if type(format_spec) is str and format_spec == "":
            if type(obj) is SymbolicInt:
                kind = 1
            elif (
                not isinstance(obj, (_core.CrossHairValue, int, float, str, bytes, tuple, list, dict, set, frozenset))
                and type(obj).__format__ is object.__format__
            ):
                kind = 2
    if kind == 1:
        return obj.__repr__()
    if kind == 2:
        return str(obj)
    return _orig_format(obj, format_spec)


_core._PATCH_REGISTRATIONS[format] = _my_format

# --- 3. solver statistics -------------------------------------------------------------------

_Q = [0, 0.0]
_orig_is_sat = _ss.solver_is_sat


def _counting_is_sat(solver, *exprs):
    t = time.perf_counter()
    try:
        return _orig_is_sat(solver, *exprs)
    finally:
        _Q[0] += 1
        _Q[1] += time.perf_counter() - t


_ss.solver_is_sat = _counting_is_sat


def reset_counters():
    _Q[0] = 0
    _Q[1] = 0.0


def counters():
    return _Q[0], _Q[1]


# --- 4. reproducible branch order -------------------------------------------------------------

_seed = int(os.environ.get("VERIF_SEED", "0") or 0)
import random as _random


def _seeded_newrandom():
    return _random.Random(1801243388510242075 + _seed)


_ss.newrandom = _seeded_newrandom
