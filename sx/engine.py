"""sx.engine - bounded symbolic path exploration of real Python code with CrossHair internals + z3.

One call of `explore(fn)` runs `fn(inp)` once per feasible path.  `inp` hands out symbolic
inputs whose bounds are asserted into the solver.  Every branch on a symbolic value is decided
by z3 (`solver_is_sat`); CrossHair's search tree remembers which branches are done, so the loop
ends when the tree is *exhausted* - i.e. every feasible path within the bounds has been run and
on each path the harness' assertions were evaluated symbolically (a feasible failing branch is
its own path).  At the end of each path one model is realised (the *witness*) and the same
harness function is re-run concretely on it, outside tracing (the concrete twin).

Verdicts: see DESIGN.md 2.2.
"""
from __future__ import annotations

import asyncio
import os
import sys
import time
import traceback
from time import process_time

import z3

from . import trace  # noqa: F401  (function coverage for evidence)
from . import patches  # noqa: F401  (applies engine patches on import)
from .inputs import ConcreteInputs, Inputs, Reject, Violation, jsonable, origin as _origin

import crosshair.core_and_libs  # noqa: F401,E402
from crosshair.core import (  # noqa: E402
    COMPOSITE_TRACER,
    NoTracing,
    Patched,
    ResumedTracing,
    StateSpace,
    StateSpaceContext,
    condition_parser,
)
from crosshair.options import DEFAULT_OPTIONS  # noqa: E402
from crosshair.statespace import CallAnalysis, RootNode, VerificationStatus  # noqa: E402
from crosshair.util import IgnoreAttempt, NotDeterministic, UnexploredPath  # noqa: E402


def run_concrete(fn, witness, part=None):
    """Run the harness function on concrete values. Returns ('ok', outcome) | ('reject',) |
    ('violation', key, msg) | ('error', text)."""
    inp = ConcreteInputs(witness)
    try:
        out = fn(inp) if part is None else fn(inp, part)
    except Reject:
        return ("reject",)
    except Violation as v:
        return ("violation", v.key, v.msg)
    except asyncio.CancelledError as e:  # BaseException in 3.8+
        return ("error", "CancelledError escaped harness: %r" % (e,))
    except Exception as e:  # harness bug, or an exception of the code under test that the harness did not expect
        if _origin(e) == "escaped":
            return ("violation", "escaped:%s" % type(e).__name__, str(e)[:200])
        return ("error", "%s: %s" % (type(e).__name__, str(e)[:200]))
    return ("ok", jsonable(out))


def explore(fn, part=None, *, budget=600.0, per_path=30.0, max_failures=8, max_samples=4,
            max_paths=None, twin=True, max_fail_paths=30):
    """Explore all paths of fn(inp[, part]). Returns a result dict (JSON-able)."""
    opts = DEFAULT_OPTIONS
    root = RootNode()
    t0 = process_time()
    w0 = time.time()
    patches.reset_counters()
    res = dict(paths=0, ok=0, rejected=0, unknown=0, ignored=0, exhausted=False,
               failures=[], budget_exhausted=False, witnesses=0, diverged=[], samples=[],
               unknown_reasons=[], tags={})
    fail_keys = {}
    while True:
        it0 = process_time()
        if it0 - t0 > budget or (max_paths and res["paths"] >= max_paths):
            res["budget_exhausted"] = True
            break
        space = StateSpace(execution_deadline=it0 + per_path, model_check_timeout=per_path / 2,
                           search_root=root)
        exhausted = False
        with condition_parser(opts.analysis_kind), Patched(), COMPOSITE_TRACER, NoTracing(), \
                StateSpaceContext(space):
            status = None
            inp = Inputs()
            kind = None
            payload = None
            try:
                try:
                    with ResumedTracing():
                        out = fn(inp) if part is None else fn(inp, part)
                    kind = "ok"
                except Reject:
                    kind = "reject"
                except Violation as v:
                    kind = "violation"
                    payload = (v.key, v.msg)
                except asyncio.CancelledError as e:
                    kind = "violation"
                    payload = ("harness:CancelledError", repr(e))
                except NotDeterministic:
                    raise
                except z3.Z3Exception:
                    raise
                except Exception as e:
                    kind = "violation"
                    tb = traceback.format_exc(limit=-6)
                    payload = ("%s:%s" % (_origin(e), type(e).__name__), "%s\n%s" % (str(e)[:200], tb[-1500:]))
                res["paths"] += 1
                if kind == "reject":
                    res["rejected"] += 1
                else:
                    # realise one model of the inputs of this path: the witness
                    with ResumedTracing():
                        space.detach_path()
                        wit = inp.witness()
                    if kind == "ok":
                        res["ok"] += 1
                        try:
                            with ResumedTracing():
                                from crosshair.core import deep_realize
                                out_r = jsonable(deep_realize(out))
                        except Exception as e:  # pragma: no cover
                            out_r = "<unrealisable outcome %s>" % type(e).__name__
                        tag = None
                        if isinstance(out_r, dict):
                            tag = out_r.get("tag")
                        elif isinstance(out_r, list) and out_r and isinstance(out_r[0], str):
                            tag = out_r[0]
                        if tag is not None:
                            res["tags"][str(tag)] = res["tags"].get(str(tag), 0) + 1
                        if len(res["samples"]) < max_samples:
                            res["samples"].append({"inputs": wit, "outcome": out_r})
                        if twin:
                            res["witnesses"] += 1
                            c = run_concrete(fn, wit, part)
                            if c[0] == "violation":
                                # the real code, run concretely on this path's model, violates the property although the
                                # symbolic run of the path did not (a stub/builtin model is more permissive than the real
                                # thing). It is a real execution: report it (after the stand-alone replay).
                                k = c[1]
                                fail_keys[k] = fail_keys.get(k, 0) + 1
                                if fail_keys[k] <= 2:
                                    res["failures"].append({"key": k, "msg": c[2] + " [found by the concrete twin of a symbolically passing path]",
                                                            "inputs": wit, "sym_key": None, "reproduced": True, "concrete": c})
                            elif c[0] != "ok" or c[1] != out_r:
                                if len(res["diverged"]) < 5:
                                    res["diverged"].append({"inputs": wit, "symbolic": out_r, "concrete": c})
                                else:
                                    res["diverged"].append(None)
                    else:
                        key, msg = payload
                        c = run_concrete(fn, wit, part) if twin else None
                        reproduced = bool(c and c[0] == "violation")
                        rec = {"key": (c[1] if reproduced else key), "msg": (c[2] if reproduced else msg),
                               "inputs": wit, "sym_key": key, "reproduced": reproduced,
                               "concrete": c}
                        k = rec["key"]
                        fail_keys[k] = fail_keys.get(k, 0) + 1
                        if fail_keys[k] <= 2:
                            res["failures"].append(rec)
                status = VerificationStatus.CONFIRMED
            except IgnoreAttempt:
                res["ignored"] += 1
                status = None
            except UnexploredPath as e:
                res["unknown"] += 1
                if len(res["unknown_reasons"]) < 5:
                    res["unknown_reasons"].append("%s: %s" % (type(e).__name__, str(e)[:200]))
                status = VerificationStatus.UNKNOWN
            except (NotDeterministic, z3.Z3Exception) as e:
                res["unknown"] += 1
                if len(res["unknown_reasons"]) < 5:
                    res["unknown_reasons"].append("%s: %s" % (type(e).__name__, str(e)[:200]))
                status = VerificationStatus.UNKNOWN
            _a, exhausted = space.bubble_status(CallAnalysis(status))
        if len(fail_keys) >= max_failures or sum(fail_keys.values()) >= max_fail_paths:
            break
        if exhausted:
            res["exhausted"] = True
            break
    res["fail_key_counts"] = fail_keys
    res["cpu_s"] = round(process_time() - t0, 3)
    res["wall_s"] = round(time.time() - w0, 3)
    res["solver_queries"], res["solver_s"] = patches.counters()
    res["solver_s"] = round(res["solver_s"], 3)
    res["diverged_count"] = len(res["diverged"])
    res["diverged"] = [d for d in res["diverged"] if d is not None]
    return res
