"""In-memory file system behind a fake `aiofiles` (and a structure-preserving fake `json`).

Contract modelled (DESIGN 2.4):
  open(path)            FileNotFoundError if absent; text-mode read of undecodable bytes raises
                        UnicodeDecodeError (a ValueError); OSError can be injected
  open(path, "w")       creates / truncates the file on disk at once
  write(data)           data goes to the file object's buffer; any prefix of it may already be on
                        disk (symbolic prefix length at a crash), all of it after close()
  close()               flushes
  os.replace(a, b)      atomic rename
Every operation first asks `FS.tick(opname)`: at the crash index the model stops changing the
disk for good (no `finally` can repair it), which is what a process death means.
Optional `yielder`: an awaitable factory so that each operation is a suspension point (C16).
"""
from __future__ import annotations


class Crashed(Exception):
    """Raised inside the dying process at the crash point (only to stop the coroutine)."""


class FS:
    def __init__(self, files=None, crash_at=None, prefix_len=None, yielder=None, faults=None):
        self.files = dict(files or {})  # path -> content (str | bytes | token)
        self.ops = []
        self.crash_at = crash_at
        self.crashed = False
        self.prefix_len = prefix_len  # callable(n) -> surviving prefix of an unflushed write
        self.yielder = yielder
        self.faults = faults or {}  # opname -> exception to raise

    def tick(self, op):
        if self.crashed:
            raise Crashed(op)
        if self.crash_at is not None and len(self.ops) == self.crash_at:
            self.crashed = True
            raise Crashed(op)
        self.ops.append(op)
        exc = self.faults.get(op.split(":")[0])
        if exc is not None:
            raise exc


class _File:
    def __init__(self, fs, path, mode):
        self.fs = fs
        self.path = path
        self.mode = mode
        self.buf = None  # pending (unflushed) data
        self.closed = False

    async def _y(self):
        if self.fs.yielder is not None:
            await self.fs.yielder()

    async def read(self):
        await self._y()
        self.fs.tick("read:" + self.path)
        data = self.fs.files[self.path]
        if isinstance(data, bytes):
            return data.decode()  # text mode: UnicodeDecodeError is a ValueError
        return data

    async def write(self, data):
        await self._y()
        try:
            self.fs.tick("write:" + self.path)
        except Crashed:
            raise
        self.buf = data if self.buf is None else self.buf + data
        return len(data) if hasattr(data, "__len__") else 0

    async def flush(self):
        await self._y()
        self.fs.tick("flush:" + self.path)
        self._flush()

    def _flush(self):
        if self.buf is not None:
            old = self.fs.files.get(self.path, "")
            self.fs.files[self.path] = self.buf if old == "" or old is None else old + self.buf
            self.buf = None

    async def close(self):
        await self._y()
        if self.closed:
            return
        try:
            self.fs.tick("close:" + self.path)
        except Crashed:
            # process died with unflushed data: a prefix of it may have reached the disk
            if self.buf is not None and self.fs.prefix_len is not None and "w" in self.mode and not getattr(self.fs, "_cut_done", False):
                self.fs._cut_done = True
                n = self.fs.prefix_len(len(self.buf))
                self.fs.files[self.path] = self.buf[:n]
            raise
        self._flush()
        self.closed = True


class _Ctx:
    def __init__(self, fs, path, mode):
        self.fs = fs
        self.path = path
        self.mode = mode
        self.f = None

    async def _open(self):
        fs = self.fs
        if fs.yielder is not None:
            await fs.yielder()
        fs.tick("open-%s:%s" % (self.mode, self.path))
        if "w" in self.mode:
            fs.files[self.path] = ""
        elif self.path not in fs.files:
            raise FileNotFoundError(2, "No such file or directory", self.path)
        self.f = _File(fs, self.path, self.mode)
        return self.f

    def __await__(self):
        return self._open().__await__()

    async def __aenter__(self):
        return await self._open()

    async def __aexit__(self, et, ev, tb):
        if self.f is not None:
            if et is not None and issubclass(et, Crashed):
                # the process is dead: the with-block's close never runs as code, but the OS
                # may have received a prefix of the buffered data
                f = self.f
                if f.buf is not None and self.fs.prefix_len is not None and "w" in f.mode and not getattr(self.fs, "_cut_done", False):
                    self.fs._cut_done = True
                    n = self.fs.prefix_len(len(f.buf))
                    self.fs.files[f.path] = f.buf[:n]
                return False
            await self.f.close()
        return False


class _FakeOs:
    def __init__(self, fs):
        self.fs = fs

    async def replace(self, src, dst):
        self._replace(src, dst)

    rename = replace

    def _replace(self, src, dst):
        self.fs.tick("replace:%s->%s" % (src, dst))
        if src not in self.fs.files:
            raise FileNotFoundError(2, "No such file or directory", src)
        self.fs.files[dst] = self.fs.files.pop(src)

    async def remove(self, path):
        self.fs.tick("remove:" + path)
        self.fs.files.pop(path, None)


class FakeAiofiles:
    def __init__(self, fs):
        self.fs = fs
        self.os = _FakeOs(fs)

    def open(self, path, mode="r", *a, **kw):
        return _Ctx(self.fs, str(path), mode)


class SyncOs:
    """Stand-in for the `os` module inside persistence (if a future save uses os.replace)."""

    def __init__(self, fs, real_os):
        self._fs = fs
        self._real = real_os
        self.path = real_os.path

    def replace(self, src, dst):
        _FakeOs(self._fs)._replace(str(src), str(dst))

    rename = replace

    def fsync(self, fd):
        self._fs.tick("fsync")

    def __getattr__(self, name):
        return getattr(self._real, name)


# --- structure-preserving fake json (symbolic runs only) -----------------------------------


class Token:
    def __init__(self, value):
        self.value = value

    def __eq__(self, other):
        return isinstance(other, str) and other == "" and False


def _jsonify(x):
    if isinstance(x, dict) or hasattr(x, "items"):
        out = {}
        for k, v in x.items():
            if isinstance(k, bool):
                ks = "true" if k else "false"
            elif isinstance(k, int):
                ks = str(k)
            elif k is None:
                ks = "null"
            elif isinstance(k, str):
                ks = k
            else:
                raise TypeError("keys must be str, int, float, bool or None")
            out[ks] = _jsonify(v)
        return out
    if isinstance(x, (list, tuple)):
        return [_jsonify(v) for v in x]
    if x is None or isinstance(x, (str, int, float, bool)):
        return x
    raise TypeError("Object of type %s is not JSON serializable" % type(x).__name__)


class FakeJson:
    JSONDecodeError = ValueError

    @staticmethod
    def dumps(obj, **kw):
        return Token(_jsonify(obj))

    @staticmethod
    def loads(s, **kw):
        if isinstance(s, Token):
            return _jsonify(s.value)  # fresh copy
        import json

        return json.loads(s)
