"""In-memory file system behind a fake `aiofiles` (and a structure-preserving fake `json`).

Contract modelled (DESIGN 2.4):
  open(path)            FileNotFoundError if absent; text-mode read of undecodable bytes raises
                        UnicodeDecodeError (a ValueError); OSError can be injected
  open(path, "w")       creates / truncates the file on disk at once
  write(data)           data goes to the file object's buffer; any prefix of it may already be on
                        disk (symbolic prefix length at a crash), all of it after close()
  close()               flushes
  os.replace(a, b)      atomic rename
Every operation first asks `FS.tick(opname)`: at the crash index the model stops changing the
disk for good (no `finally` can repair it), which is what a process death means.
Optional `yielder`: an awaitable factory so that each operation is a suspension point (C16).
"""
from __future__ import annotations


class Crashed(Exception):
    """Raised inside the dying process at the crash point (only to stop the coroutine)."""


class FS:
    def __init__(self, files=None, crash_at=None, prefix_len=None, yielder=None, faults=None, latency=None):
        self.files = dict(files or {})  # path -> content (str | bytes | token)
        self.ops = []
        self.crash_at = crash_at
        self.crashed = False
        self.prefix_len = prefix_len  # callable(n) -> surviving prefix of an unflushed write
        self.yielder = yielder
        self.faults = faults or {}  # opname -> exception to raise
        self.latency = latency  # callable(handle index) -> number of suspensions per operation on that handle
        self.handles = 0
        self.open_handles = []  # open _File objects: a rename moves the file they are writing to (inode semantics)

    def renamed(self, src, dst):
        for h in self.open_handles:
            if h.path == dst:
                h.orphan = True  # its file was replaced: further writes go to an unlinked inode
            elif h.path == src:
                h.path = dst

    def removed(self, path):
        for h in self.open_handles:
            if h.path == path:
                h.orphan = True

    async def pause(self, handle):
        """Each file operation suspends `latency(handle)` times (thread-pool I/O of varying speed)."""
        if self.yielder is None:
            return
        n = 1 if self.latency is None else self.latency(handle)
        for _ in range(n):
            await self.yielder()

    def tick(self, op):
        if self.crashed:
            raise Crashed(op)
        if self.crash_at is not None and len(self.ops) == self.crash_at:
            self.crashed = True
            raise Crashed(op)
        self.ops.append(op)
        exc = self.faults.get(op.split(":")[0])
        if exc is not None:
            raise exc


def _overlay(old, pos, data):
    """Write `data` at offset `pos` over `old` (text files: offsets in characters)."""
    if old is None:
        old = ""
    if pos > len(old):
        old = old + "\x00" * (pos - len(old))
    return old[:pos] + data + old[pos + len(data):]


class _File:
    def __init__(self, fs, path, mode):
        self.fs = fs
        self.path = path
        self.mode = mode
        self.buf = None  # pending (unflushed) data, to be written at self.bufpos
        self.bufpos = 0
        self.pos = 0
        self.closed = False
        self.handle = 0
        self.orphan = False

    def writable(self):
        return "w" in self.mode or "+" in self.mode or "a" in self.mode

    async def _y(self):
        await self.fs.pause(self.handle)

    async def read(self):
        await self._y()
        self.fs.tick("read:" + self.path)
        data = self.fs.files[self.path]
        if isinstance(data, bytes):
            data = data.decode()  # text mode: UnicodeDecodeError is a ValueError
        if hasattr(data, "__len__"):
            out = data[self.pos:] if self.pos else data
            self.pos = len(data)
            return out
        return data

    async def write(self, data):
        await self._y()
        self.fs.tick("write:" + self.path)
        if self.buf is None:
            self.buf = data
            self.bufpos = self.pos
        else:
            self.buf = self.buf + data
        self.pos += len(data) if hasattr(data, "__len__") else 0
        return len(data) if hasattr(data, "__len__") else 0

    async def seek(self, offset, whence=0):
        await self._y()
        self.fs.tick("seek:" + self.path)
        self._flush()
        self.pos = offset if whence == 0 else self.pos
        return self.pos

    async def truncate(self, size=None):
        await self._y()
        self.fs.tick("truncate:" + self.path)
        self._flush()
        n = self.pos if size is None else size
        cur = self.fs.files.get(self.path, "")
        self.fs.files[self.path] = cur[:n]
        return n

    async def flush(self):
        await self._y()
        self.fs.tick("flush:" + self.path)
        self._flush()

    def _flush(self):
        if self.buf is not None and self.orphan:
            self.buf = None
        if self.buf is not None:
            old = self.fs.files.get(self.path, "")
            if isinstance(self.buf, str) and isinstance(old, str):
                self.fs.files[self.path] = _overlay(old, self.bufpos, self.buf)
            else:
                self.fs.files[self.path] = self.buf  # token (symbolic json fake): whole-file write
            self.buf = None

    def crash_cut(self):
        """The process died with unflushed data: a symbolic prefix of it reached the disk."""
        fs = self.fs
        if self.orphan:
            return
        if self.buf is not None and fs.prefix_len is not None and self.writable() and not getattr(fs, "_cut_done", False):
            fs._cut_done = True
            n = fs.prefix_len(len(self.buf))
            old = fs.files.get(self.path, "")
            if isinstance(self.buf, str) and isinstance(old, str):
                fs.files[self.path] = _overlay(old, self.bufpos, self.buf[:n])
            else:
                fs.files[self.path] = self.buf[:n]

    async def close(self):
        await self._y()
        if self.closed:
            return
        try:
            self.fs.tick("close:" + self.path)
        except Crashed:
            self.crash_cut()
            raise
        self._flush()
        self.closed = True
        if self in self.fs.open_handles:
            self.fs.open_handles.remove(self)


class _Ctx:
    def __init__(self, fs, path, mode):
        self.fs = fs
        self.path = path
        self.mode = mode
        self.f = None

    async def _open(self):
        fs = self.fs
        handle = fs.handles
        fs.handles += 1
        await fs.pause(handle)
        fs.tick("open-%s:%s" % (self.mode, self.path))
        if "w" in self.mode:
            fs.files[self.path] = ""
        elif "x" in self.mode:
            if self.path in fs.files:
                raise FileExistsError(17, "File exists", self.path)
            fs.files[self.path] = ""
        elif "a" in self.mode:
            fs.files.setdefault(self.path, "")
        elif self.path not in fs.files:
            raise FileNotFoundError(2, "No such file or directory", self.path)
        self.f = _File(fs, self.path, self.mode)
        self.f.handle = handle
        fs.open_handles.append(self.f)
        if "a" in self.mode:
            self.f.pos = len(fs.files[self.path])
        return self.f

    def __await__(self):
        return self._open().__await__()

    async def __aenter__(self):
        return await self._open()

    async def __aexit__(self, et, ev, tb):
        if self.f is not None:
            if et is not None and issubclass(et, Crashed):
                # the process is dead: the with-block's close never runs as code, but the OS
                # may have received a prefix of the buffered data
                self.f.crash_cut()
                return False
            await self.f.close()
        return False


class _FakeOs:
    def __init__(self, fs):
        self.fs = fs

    async def replace(self, src, dst):
        self._replace(src, dst)

    rename = replace

    def _replace(self, src, dst):
        self.fs.tick("replace:%s->%s" % (src, dst))
        if src not in self.fs.files:
            raise FileNotFoundError(2, "No such file or directory", src)
        self.fs.files[dst] = self.fs.files.pop(src)
        self.fs.renamed(src, dst)

    async def remove(self, path):
        self.fs.tick("remove:" + path)
        self.fs.files.pop(path, None)
        self.fs.removed(path)


class FakeAiofiles:
    def __init__(self, fs):
        self.fs = fs
        self.os = _FakeOs(fs)

    def open(self, path, mode="r", *a, **kw):
        return _Ctx(self.fs, str(path), mode)


class _FakePath:
    def __init__(self, fs, real_path):
        self._fs = fs
        self._real = real_path

    def exists(self, p):
        return str(p) in self._fs.files

    isfile = exists
    lexists = exists

    def getsize(self, p):
        return len(self._fs.files[str(p)])

    def __getattr__(self, name):
        return getattr(self._real, name)


class SyncOs:
    """Stand-in for the `os` module inside persistence (if save uses os.replace, os.path.exists ...)."""

    def __init__(self, fs, real_os):
        self._fs = fs
        self._real = real_os
        self.path = _FakePath(fs, real_os.path)

    def remove(self, p):
        self._fs.tick("remove:" + str(p))
        if str(p) not in self._fs.files:
            raise FileNotFoundError(2, "No such file or directory", str(p))
        del self._fs.files[str(p)]
        self._fs.removed(str(p))

    unlink = remove

    def replace(self, src, dst):
        _FakeOs(self._fs)._replace(str(src), str(dst))

    rename = replace

    def fsync(self, fd):
        self._fs.tick("fsync")

    def close(self, fd):
        if isinstance(fd, int) and fd >= 1000:
            return  # descriptor handed out by FakeTempfile.mkstemp
        return self._real.close(fd)

    def fdopen(self, fd, *a, **kw):
        raise OSError("fdopen is not modelled by sx/fsmodel.py")

    def __getattr__(self, name):
        return getattr(self._real, name)


class FakeTempfile:
    """tempfile.mkstemp / NamedTemporaryFile names routed to the model (no real file is created)."""

    def __init__(self, fs, real):
        self._fs = fs
        self._real = real
        self._n = 0

    def mkstemp(self, suffix=None, prefix=None, dir=None, text=False):
        self._fs.tick("mkstemp")
        self._n += 1
        path = "%s/%s%d%s" % (dir or "/tmp", prefix or "tmp", self._n, suffix or "")
        self._fs.files[path] = ""
        return 1000 + self._n, path

    def mktemp(self, suffix="", prefix="tmp", dir=None):
        self._n += 1
        return "%s/%s%d%s" % (dir or "/tmp", prefix, self._n, suffix)

    def gettempdir(self):
        return "/tmp"

    def __getattr__(self, name):
        return getattr(self._real, name)


# --- structure-preserving fake json (symbolic runs only) -----------------------------------


class Token:
    def __init__(self, value):
        self.value = value

    def __eq__(self, other):
        return isinstance(other, str) and other == "" and False


def _jsonify(x):
    if isinstance(x, dict) or hasattr(x, "items"):
        out = {}
        for k, v in x.items():
            if isinstance(k, bool):
                ks = "true" if k else "false"
            elif isinstance(k, int):
                ks = str(k)
            elif k is None:
                ks = "null"
            elif isinstance(k, str):
                ks = k
            else:
                raise TypeError("keys must be str, int, float, bool or None")
            out[ks] = _jsonify(v)
        return out
    if isinstance(x, (list, tuple)):
        return [_jsonify(v) for v in x]
    if x is None or isinstance(x, (str, int, float, bool)):
        return x
    raise TypeError("Object of type %s is not JSON serializable" % type(x).__name__)


class FakeJson:
    JSONDecodeError = ValueError

    @staticmethod
    def dumps(obj, **kw):
        return Token(_jsonify(obj))

    @staticmethod
    def loads(s, **kw):
        if isinstance(s, Token):
            return _jsonify(s.value)  # fresh copy
        import json

        return json.loads(s)
