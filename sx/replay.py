"""Stand-alone replay of a recorded counterexample against the real code, without CrossHair.

usage: python -m sx.replay <replay.json>      exit 1 = violation reproduced, 0 = not reproduced, 2 = error
"""
import importlib
import json
import os
import sys


def main(path):
    body = json.load(open(path))
    sys.path.insert(0, os.path.dirname(os.path.dirname(os.path.abspath(__file__))))
    from sx.inputs import ConcreteInputs, Reject, Violation

    mod = importlib.import_module(body["module"])
    part = body["part"]
    if hasattr(mod, "setup"):
        mod.setup(part)
    fn = getattr(mod, body["fn"])
    inp = ConcreteInputs(body["inputs"])
    print("replaying property=%s harness=%s.%s partition=%s" % (body["property"], body["module"], body["fn"], part.get("name")))
    print("inputs:", json.dumps(body["inputs"]))
    try:
        out = fn(inp, part)
    except Reject:
        print("precondition rejected the inputs: not reproduced")
        return 0
    except Violation as v:
        print("REPRODUCED: %s: %s" % (v.key, v.msg))
        return 1
    except Exception as e:  # noqa: BLE001
        from sx.inputs import origin

        if origin(e) == "escaped" and body["key"].startswith("escaped:"):
            print("REPRODUCED: escaped:%s: %s" % (type(e).__name__, str(e)[:300]))
            return 1
        raise
    print("no violation; outcome:", out)
    return 0


if __name__ == "__main__":
    try:
        sys.exit(main(sys.argv[1]))
    except SystemExit:
        raise
    except BaseException as e:  # noqa: BLE001
        import traceback

        traceback.print_exc()
        sys.exit(2)
