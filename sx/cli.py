import argparse
import os
import sys


def main():
    ap = argparse.ArgumentParser()
    sub = ap.add_subparsers(dest="cmd")
    c = sub.add_parser("check")
    c.add_argument("prop")
    c.add_argument("--tier", default=os.environ.get("VERIF_TIER") or "quick")
    c.add_argument("--only", default=None)
    sub.add_parser("list")
    a = ap.parse_args()
    from sx import runner

    if a.cmd == "list":
        for k, v in sorted(runner.HARNESS.items()):
            print(k, v)
        return 0
    import aiomysensors

    want = os.path.join(runner.REPO, "src", "aiomysensors")
    if os.path.dirname(os.path.abspath(aiomysensors.__file__)) != want:
        print("aiomysensors resolves to %s, not %s" % (aiomysensors.__file__, want))
        return 2
    tier = a.tier if a.tier in ("quick", "thorough") else "quick"
    seed = int(os.environ.get("VERIF_SEED", "0") or 0)
    return runner.main(a.prop, tier, seed, a.only)


if __name__ == "__main__":
    sys.exit(main())
