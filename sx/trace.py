"""Record which functions of /repo/src ran in this process (evidence: functions_encoded)."""
import os
import sys

REPO_SRC = os.path.join(os.environ.get("VERIF_REPO", "/repo"), "src") + os.sep
_seen = set()
_TOOL = 3  # CrossHair uses its own id; 3 is free


def _on_start(code, _offset):
    fn = code.co_filename
    if fn.startswith(REPO_SRC) and code.co_name != "<module>" and not (
        code.co_name == code.co_qualname.rsplit(".", 1)[-1] and code.co_name[:1].isupper() and not code.co_varnames
    ):
        _seen.add("%s:%s" % (fn[len(REPO_SRC):], code.co_qualname))
    return sys.monitoring.DISABLE


def install():
    try:
        sys.monitoring.use_tool_id(_TOOL, "sx-trace")
        sys.monitoring.register_callback(_TOOL, sys.monitoring.events.PY_START, _on_start)
        sys.monitoring.set_events(_TOOL, sys.monitoring.events.PY_START)
    except Exception:
        pass


def functions_seen():
    return sorted(_seen)


install()
