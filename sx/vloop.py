"""Virtual-time asyncio event loop: a SelectorEventLoop whose selector never blocks but advances a
virtual clock by the requested timeout.  Timers (asyncio.sleep, call_later) fire in virtual time,
so 'at least every 15 minutes' can be observed in milliseconds (C16)."""
from __future__ import annotations

import asyncio
import selectors


class Deadlock(Exception):
    """Nothing is runnable and no timer is pending."""


class _VSelector(selectors.BaseSelector):
    def __init__(self):
        self.loop = None
        self._map = {}

    def register(self, fileobj, events, data=None):
        key = selectors.SelectorKey(fileobj, 0, events, data)
        self._map[fileobj] = key
        return key

    def unregister(self, fileobj):
        return self._map.pop(fileobj)

    def modify(self, fileobj, events, data=None):
        self._map.pop(fileobj, None)
        return self.register(fileobj, events, data)

    def select(self, timeout=None):
        if timeout is None:
            raise Deadlock("event loop would block forever (virtual time %.3f)" % self.loop._vt)
        if timeout > 0:
            self.loop._vt += timeout
        return []

    def close(self):
        self._map.clear()

    def get_map(self):
        return self._map


class VLoop(asyncio.SelectorEventLoop):
    def __init__(self):
        self._vt = 0.0
        sel = _VSelector()
        super().__init__(selector=sel)
        sel.loop = self

    def time(self):
        return self._vt

    def _make_self_pipe(self):
        self._ssock = None
        self._csock = None
        self._internal_fds = 0

    def _close_self_pipe(self):
        pass

    def _write_to_self(self):
        pass


def run(coro_fn):
    """Run coro_fn() to completion on a fresh virtual-time loop; returns (result, loop_time)."""
    loop = VLoop()
    try:
        res = loop.run_until_complete(coro_fn())
        return res, loop._vt
    finally:
        try:
            loop.close()
        except Exception:  # noqa: BLE001
            pass
