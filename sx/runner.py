"""sx.runner - run all partitions of a property's harness in parallel, aggregate, decide, write evidence.

Exit codes: 0 held on everything explored (known findings are printed, not failed);
            1 at least one VIOLATION (reproduced by the concrete twin *and* the stand-alone replay);
            2 inconclusive / harness error (never reported as success, never as a violation).
"""
from __future__ import annotations

import hashlib
import importlib
import json
import multiprocessing as mp
import os
import subprocess
import sys
import time

VERIF = os.path.dirname(os.path.dirname(os.path.abspath(__file__)))
REPO = os.environ.get("VERIF_REPO", "/repo")

HARNESS = {
    "C01": "harness.c01_codec",
    "C02": "harness.c02_decoder",
    "C03": "harness.c03_receive",
    "C04": "harness.c04_registry",
    "C05": "harness.c05_version",
    "C06": "harness.c06_reactions",
    "C07": "harness.c07_sleepbuf",
    "C08": "harness.c08_flushfault",
    "C09": "harness.c09_race",
    "C10": "harness.c10_presreq",
    "C11": "harness.c11_ids",
    "C12": "harness.c12_send",
    "C13": "harness.c13_persist_rt",
    "C14": "harness.c14_load",
    "C15": "harness.c15_crash",
    "C16": "harness.c16_lifecycle",
    "C17": "harness.c17_stream",
    "C18": "harness.c18_mqtt",
    "C19": "harness.c19_versions",
}


def _worker(modname, part, q):
    try:
        sys.setrecursionlimit(10000)
        from sx.engine import explore

        mod = importlib.import_module(modname)
        if hasattr(mod, "setup"):
            mod.setup(part)
        fn = getattr(mod, part["fn"])
        res = explore(
            fn,
            part,
            budget=part.get("budget", 300.0),
            per_path=part.get("per_path", 30.0),
            max_failures=part.get("max_failures", 8),
            max_paths=part.get("max_paths"),
            max_fail_paths=part.get("max_fail_paths", 30),
        )
        from sx.trace import functions_seen

        res["functions"] = functions_seen()
        q.put(("done", res))
    except BaseException as e:  # noqa: BLE001
        import traceback

        q.put(("crash", "%s: %s\n%s" % (type(e).__name__, e, traceback.format_exc()[-3000:])))


def run_partitions(modname, parts, jobs=None):
    """Run partitions in separate processes (fresh interpreter each: spawn)."""
    ctx = mp.get_context("spawn")
    jobs = jobs or int(os.environ.get("VERIF_JOBS", "16"))
    pending = sorted(range(len(parts)), key=lambda i: -parts[i].get("cost", 1))
    running = {}
    results = [None] * len(parts)
    while pending or running:
        while pending and len(running) < jobs:
            i = pending.pop(0)
            q = ctx.Queue()
            p = ctx.Process(target=_worker, args=(modname, parts[i], q), daemon=True)
            p.start()
            running[i] = (p, q, time.time())
        time.sleep(0.05)
        for i in list(running):
            p, q, t0 = running[i]
            part = parts[i]
            got = None
            try:
                got = q.get_nowait()
            except Exception:
                pass
            if got is not None:
                results[i] = got
                p.join(5)
                if p.is_alive():
                    p.kill()
                del running[i]
                continue
            wall_cap = part.get("wall_cap", part.get("budget", 300.0) * 1.5 + 60)
            if not p.is_alive():
                try:
                    got = q.get(timeout=1)
                    results[i] = got
                except Exception:
                    results[i] = ("crash", "worker died with exit code %s" % p.exitcode)
                del running[i]
            elif time.time() - t0 > wall_cap:
                p.kill()
                results[i] = ("crash", "wall cap %.0fs exceeded" % wall_cap)
                del running[i]
    return results


def load_known():
    p = os.path.join(VERIF, "known_findings.json")
    if not os.path.exists(p):
        return {"known": [], "fixed": []}
    return json.load(open(p))


def source_hashes():
    out = {}
    base = os.path.join(REPO, "src", "aiomysensors")
    for dp, _dn, fns in os.walk(base):
        for f in fns:
            if f.endswith(".py"):
                p = os.path.join(dp, f)
                out[os.path.relpath(p, REPO)] = hashlib.sha256(open(p, "rb").read()).hexdigest()[:16]
    return out


def write_replay(prop, modname, part, rec):
    d = os.path.join(os.environ.get("VERIF_REPLAY_DIR") or os.path.join(VERIF, "replays"), prop)
    os.makedirs(d, exist_ok=True)
    body = {"property": prop, "module": modname, "fn": part["fn"], "part": part,
            "inputs": rec["inputs"], "key": rec["key"], "msg": rec["msg"]}
    h = hashlib.sha256(json.dumps(body, sort_keys=True).encode()).hexdigest()[:12]
    path = os.path.join(d, "%s.json" % h)
    with open(path, "w") as f:
        json.dump(body, f, indent=1, sort_keys=True)
    return path


def standalone_replay(path):
    """Replay in a fresh interpreter without CrossHair. Returns (reproduced: bool, output)."""
    py = os.path.join(VERIF, ".venv", "bin", "python")
    env = dict(os.environ, SX_NO_CROSSHAIR="1")
    env["PYTHONPATH"] = (REPO + "/src:" + VERIF) if REPO != "/repo" else VERIF
    try:
        p = subprocess.run([py, "-m", "sx.replay", path], capture_output=True, text=True, env=env,
                           timeout=120, cwd=VERIF)
    except subprocess.TimeoutExpired:
        return False, "replay timeout"
    return p.returncode == 1, (p.stdout + p.stderr)[-2000:]


def main(prop, tier="quick", seed=0, only=None):
    t0 = time.time()
    modname = HARNESS[prop]
    sys.path.insert(0, VERIF)
    mod = importlib.import_module(modname)
    parts = mod.partitions(tier)
    if only:
        parts = [p for p in parts if only in p["name"]]
    for p in parts:
        p.setdefault("deciding", True)
        p["tier"] = tier
    results = run_partitions(modname, parts)
    known = load_known()
    known_keys = {(k["property"], k["key"]): k for k in known.get("known", [])}

    agg = dict(paths=0, ok=0, rejected=0, unknown=0, witnesses=0, diverged=0, solver_queries=0,
               solver_s=0.0, cpu_s=0.0)
    samples = []
    functions = set()
    part_summaries = []
    inconclusive = []
    violations = []  # (part, rec)
    known_hit = {}
    tags_seen = {}
    for part, r in zip(parts, results):
        if r is None or r[0] == "crash":
            inconclusive.append("%s: worker crashed: %s" % (part["name"], (r or (None, "no result"))[1][-800:]))
            part_summaries.append({"name": part["name"], "status": "crash"})
            continue
        res = r[1]
        for k in ("paths", "ok", "rejected", "unknown", "witnesses", "solver_queries"):
            agg[k] += res[k]
        agg["diverged"] += res["diverged_count"]
        agg["solver_s"] += res["solver_s"]
        agg["cpu_s"] += res["cpu_s"]
        functions.update(res.get("functions", []))
        for s in res["samples"][:2]:
            if len(samples) < 12:
                samples.append({"partition": part["name"], **s})
        for t, n in res.get("tags", {}).items():
            tags_seen[t] = tags_seen.get(t, 0) + n
        hunt = not part["deciding"]
        status = "exhausted" if res["exhausted"] else ("budget" if res["budget_exhausted"] else "stopped")
        part_summaries.append({"name": part["name"], "status": status, "paths": res["paths"], "ok": res["ok"],
                               "rejected": res["rejected"], "unknown": res["unknown"],
                               "failing_keys": res["fail_key_counts"], "cpu_s": res["cpu_s"],
                               "solver_queries": res["solver_queries"], "solver_s": res["solver_s"],
                               "deciding": part["deciding"]})
        for rec in res["failures"]:
            if not rec["reproduced"]:
                inconclusive.append("%s: failing path does not reproduce concretely (engine/harness artefact): key=%s inputs=%s concrete=%s msg=%s"
                                    % (part["name"], rec["sym_key"], json.dumps(rec["inputs"])[:300], rec["concrete"], rec["msg"][:600]))
                continue
            violations.append((part, rec))
        if res["diverged_count"]:
            inconclusive.append("%s: %d witness divergences, e.g. %s" % (part["name"], res["diverged_count"], json.dumps(res["diverged"][:1])[:600]))
        if not hunt:
            if res["unknown"]:
                inconclusive.append("%s: %d unknown paths %s" % (part["name"], res["unknown"], res["unknown_reasons"][:2]))
            if not res["exhausted"] and not res["fail_key_counts"]:
                inconclusive.append("%s: not exhausted within budget (%s, %d paths)" % (part["name"], status, res["paths"]))
            if res["ok"] < part.get("min_ok", 1) and not res["fail_key_counts"]:
                inconclusive.append("%s: vacuity guard: only %d ok paths (< %d)" % (part["name"], res["ok"], part.get("min_ok", 1)))

    # vacuity guard over tags
    if not only:
        for t in getattr(mod, "MUST_REACH", []):
            if not tags_seen.get(t) and not violations:
                inconclusive.append("vacuity guard: no ok path reached oracle branch %r" % t)
    # replay + classify
    out_lines = []
    seen_keys = set()
    n_viol = 0
    for part, rec in violations:
        key = rec["key"]
        if key.startswith("harness:"):
            inconclusive.append("%s: the harness itself failed (%s) - not a verdict about the code: inputs=%s %s"
                                % (part["name"], key, json.dumps(rec["inputs"])[:300], rec["msg"][:800]))
            continue
        kf = known_keys.get((prop, key))
        if kf is not None:
            if key not in known_hit:
                known_hit[key] = kf
            continue
        if key in seen_keys:
            continue
        seen_keys.add(key)
        path = write_replay(prop, modname, part, rec)
        ok, out = standalone_replay(path)
        if ok:
            n_viol += 1
            out_lines.append("VIOLATION property=%s replay=%s" % (prop, path))
            out_lines.append("  key=%s partition=%s inputs=%s\n  %s" % (key, part["name"], json.dumps(rec["inputs"])[:400], rec["msg"][:500].replace("\n", "\n  ")))
        else:
            inconclusive.append("%s: violation key=%s did not reproduce in stand-alone replay: %s" % (part["name"], key, out[-500:]))
    for key, kf in known_hit.items():
        out_lines.append("KNOWN-FINDING: property=%s %s [%s]" % (prop, kf["what"], key))

    exhaustive = (not inconclusive) and all(ps.get("status") == "exhausted" for ps in part_summaries if ps.get("deciding", True))
    ev = {
        "property_id": prop,
        "tier": tier,
        "seed": int(seed),
        "level": "model_checking",
        "coverage": {
            "states": max(agg["paths"], 0),
            "transitions": agg["solver_queries"],
            "traces_validated_against_impl": agg["witnesses"] - agg["diverged"],
            "samples": samples or [{"note": "no completed path"}],
            "exhaustive": bool(exhaustive),
            "rule": "states = completed execution paths of the real code (distinct path conditions decided by z3); transitions = z3 satisfiability queries; every ok path's model is re-run concretely (twin) and compared",
            "paths_ok": agg["ok"],
            "paths_rejected_by_precondition": agg["rejected"],
            "paths_unknown": agg["unknown"],
            "witness_divergences": agg["diverged"],
            "solver": "z3 %s via crosshair-tool 0.0.110" % _z3ver(),
            "solver_s": round(agg["solver_s"], 2),
            "cpu_s": round(agg["cpu_s"], 2),
            "functions_encoded": sorted(functions),
            "source_sha256_16": source_hashes(),
            "bounds": getattr(mod, "BOUNDS", {}).get(tier, ""),
            "realised_dims": getattr(mod, "REALISED", []),
            "stubs": getattr(mod, "STUBS", []),
            "partitions": part_summaries,
            "known_findings_matched": sorted(known_hit),
            "oracle_branches_reached": tags_seen,
            "inconclusive": inconclusive[:20],
        },
        "assumptions": getattr(mod, "ASSUMPTIONS", []),
        "wall_s": round(time.time() - t0, 2),
        "violations": n_viol,
    }
    evdir = os.environ.get("VERIF_EVIDENCE_DIR") or os.path.join(VERIF, "evidence")
    os.makedirs(evdir, exist_ok=True)
    with open(os.path.join(evdir, "%s.json" % prop), "w") as f:
        json.dump(ev, f, indent=1, sort_keys=True)
    for l in out_lines:
        print(l)
    print("%s tier=%s partitions=%d paths=%d ok=%d rejected=%d unknown=%d queries=%d solver_s=%.1f cpu_s=%.1f wall_s=%.1f exhaustive=%s"
          % (prop, tier, len(parts), agg["paths"], agg["ok"], agg["rejected"], agg["unknown"], agg["solver_queries"],
             agg["solver_s"], agg["cpu_s"], time.time() - t0, exhaustive))
    if n_viol:
        return 1
    if inconclusive:
        for l in inconclusive[:20]:
            print("INCONCLUSIVE: " + l)
        return 2
    return 0


def _z3ver():
    try:
        import z3

        return z3.get_version_string()
    except Exception:
        return "?"
