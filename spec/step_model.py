"""Reference model of one controller step, written from the *statements* of C04, C05, C06, C07,
C10, C11 (not from the code).  Pure Python over association lists compared with ==, so it runs
unchanged on symbolic and on concrete values.

State
  version   reported version text or None
  proto     active protocol: "1.4" | "1.5" | "2.0" | "2.1" | "2.2"
  nodes     alist  id -> MNode
  markers   list of node ids with an outstanding presentation request (C10)
  parked    alist (node, child, type) -> payload, insertion ordered (C07)
  metric    bool
"""
from __future__ import annotations

INTERNAL_MAX = {"1.4": 14, "1.5": 17, "2.0": 28, "2.1": 28, "2.2": 33}  # MySensors serial API
STREAM_MAX = 5


class MChild:
    def __init__(self, cid, ctype, desc="", values=None):
        self.cid = cid
        self.ctype = ctype
        self.desc = desc
        self.values = values if values is not None else []  # alist type -> payload
        self.values_alt = None  # alternative acceptable values (statement leaves it open)


class MNode:
    def __init__(self, nid, ntype, version, children=None):
        self.nid = nid
        self.ntype = ntype
        self.version = version
        self.children = children if children is not None else []  # alist cid -> MChild
        self.sketch_name = ""
        self.sketch_version = ""
        self.battery = 0
        self.heartbeat = 0
        self.sleeping = False
        self.reboot = False


def aget(alist, key):
    for k, v in alist:
        if k == key:
            return v
    return None


def aset(alist, key, value):
    for i in range(len(alist)):
        if alist[i][0] == key:
            alist[i] = (key, value)
            return
    alist.append((key, value))


def adel(alist, key):
    for i in range(len(alist)):
        if alist[i][0] == key:
            del alist[i]
            return


class MState:
    def __init__(self, version=None, proto="1.4", metric=True):
        self.version = version
        self.proto = proto
        self.nodes = []
        self.markers = []
        self.parked = []
        self.metric = metric

    def is2(self):
        return self.proto in ("2.0", "2.1", "2.2")


class Outcome:
    """kind: 'msg' | 'MissingNodeError' | 'MissingChildError' | 'UnsupportedMessageError' |
    'InvalidMessageError' | 'TooManyNodesError'; ident: id named by a missing error."""

    def __init__(self, kind, ident=None, alt=None):
        self.kind = kind
        self.ident = ident
        self.alt = alt  # alternative acceptable error kind where the statements leave the order open


def line(n, c, cmd, ack, t, p):
    return str(n) + ";" + str(c) + ";" + str(cmd) + ";" + str(ack) + ";" + str(t) + ";" + p + "\n"


def _missing(st, n, kind, ident, writes, fail_write=False):
    """C10: one presentation request per episode for 2.x; nothing before 2.0."""
    if st.is2():
        outstanding = False
        for m in st.markers:
            if m == n:
                outstanding = True
        if not outstanding:
            if fail_write:
                return Outcome("TransportFailedError")
            writes.append(line(n, 255, 3, 0, 19, ""))
            st.markers.append(n)
    return Outcome(kind, ident)


def step(st, n, c, cmd, ack, t, p, *, now=None, conv=None, fail_write=False):
    """Apply one received, well-formed line.  Returns (Outcome, writes).
    now: epoch seconds of the controller's local time read as UTC (time reply);
    conv: result of the numeric payload conversion chosen by the harness: ('ok', number) | ('bad',)
    """
    writes = []
    out = _step(st, n, c, cmd, ack, t, p, writes, now, conv, fail_write)
    # version-unknown rule (C06)
    if st.version is None and not (cmd == 3 and (t == 9 or t == 14)):
        writes.append(line(0, 255, 3, 0, 2, ""))
    return out, writes


def _step(st, n, c, cmd, ack, t, p, writes, now, conv, fail_write):
    node = aget(st.nodes, n)
    if cmd == 0:
        if c == 255:
            aset(st.nodes, n, MNode(n, t, p))
            if st.is2():
                st.markers = [m for m in st.markers if not (m == n)]
            if n == 0:
                return _version(st, p)
            return Outcome("msg")
        if node is None:
            return _missing(st, n, "MissingNodeError", n, writes, fail_write)
        prev = aget(node.children, c)
        fresh = MChild(c, t, p)
        if prev is not None and len(prev.values) > 0:
            # "adds or replaces that child with its type and description": whether values recorded
            # for the replaced child survive is not stated - either is accepted
            fresh.values_alt = prev.values
        aset(node.children, c, fresh)
        return Outcome("msg")
    if cmd == 1 or cmd == 2:
        if node is None:
            return _missing(st, n, "MissingNodeError", n, writes, fail_write)
        child = aget(node.children, c)
        if child is None:
            return _missing(st, n, "MissingChildError", c, writes, fail_write)
        if cmd == 1:
            aset(child.values, t, p)
            if node.reboot:
                writes.append(line(n, 255, 3, 0, 13, ""))
            return Outcome("msg")
        value = aget(child.values, t)
        if value is not None:
            writes.append(line(n, c, 1, 0, t, value))
        return Outcome("msg")
    if cmd == 4:
        if node is None:
            o = _missing(st, n, "MissingNodeError", n, writes, fail_write)
            if not (0 <= t <= STREAM_MAX):
                o.alt = "UnsupportedMessageError"
            return o
        if not (0 <= t <= STREAM_MAX):
            return Outcome("UnsupportedMessageError")
        return Outcome("msg")
    # internal
    if not (0 <= t <= INTERNAL_MAX[st.proto]):
        return Outcome("UnsupportedMessageError")
    if t == 0:  # battery
        if node is None:
            return _missing(st, n, "MissingNodeError", n, writes, fail_write)
        if conv is None or conv[0] == "bad":
            return Outcome("InvalidMessageError")
        node.battery = conv[1]
        return Outcome("msg")
    if t == 1:  # time
        writes.append(line(n, c, 3, 0, 1, str(now)))
        return Outcome("msg")
    if t == 2:
        return _version(st, p)
    if t == 3:  # id request (C11)
        top = 0
        for k, _v in st.nodes:
            if k > top:
                top = k
        new_id = top + 1
        if new_id > 254:
            return Outcome("TooManyNodesError")
        aset(st.nodes, new_id, MNode(new_id, 17, "1.4"))
        writes.append(line(n, c, 3, 0, 4, str(new_id)))
        return Outcome("msg")
    if t == 6:
        writes.append(line(n, c, 3, 0, 6, "M" if st.metric else "I"))
        return Outcome("msg")
    if t == 11 or t == 12:
        if node is None:
            return _missing(st, n, "MissingNodeError", n, writes, fail_write)
        if t == 11:
            node.sketch_name = p
        else:
            node.sketch_version = p
        return Outcome("msg")
    if st.is2():
        if t == 14:  # gateway ready -> broadcast discover request
            writes.append(line(255, 255, 3, 0, 20, ""))
            return Outcome("msg")
        if t == 21:
            if node is None:
                return _missing(st, n, "MissingNodeError", n, writes, fail_write)
            return Outcome("msg")
        if t == 22:  # heartbeat response
            if node is None:
                return _missing(st, n, "MissingNodeError", n, writes, fail_write)
            if conv is None or conv[0] == "bad":
                return Outcome("InvalidMessageError")
            node.heartbeat = conv[1]
            if st.proto != "2.2":
                node.sleeping = True
                _flush(st, n, writes)
            return Outcome("msg")
        if t == 32 and st.proto == "2.2":
            if node is None:
                return _missing(st, n, "MissingNodeError", n, writes, fail_write)
            node.sleeping = True
            _flush(st, n, writes)
            return Outcome("msg")
    return Outcome("msg")


def _flush(st, n, writes):
    keep = []
    for key, payload in st.parked:
        if key[0] == n:
            writes.append(line(key[0], key[1], 1, 0, key[2], payload))
        else:
            keep.append((key, payload))
    st.parked = keep


def version_to_proto(text):
    """C05: newest supported protocol whose major.minor <= reported; None if `text` is not a
    release version major.minor[.patch[.build]] (decimal components)."""
    parts = text.split(".")
    if len(parts) < 2 or len(parts) > 4:
        return None
    nums = []
    for s in parts:
        if not s or not all("0" <= ch <= "9" for ch in s):
            return None
        nums.append(int(s))
    mm = (nums[0], nums[1])
    best = "1.4"
    for name, key in (("1.5", (1, 5)), ("2.0", (2, 0)), ("2.1", (2, 1)), ("2.2", (2, 2))):
        if mm >= key:
            best = name
    return best


def _version(st, p):
    proto = version_to_proto(p)
    if proto is None:
        return Outcome("InvalidMessageError", alt="version-dontcare")
    st.version = p
    st.proto = proto
    return Outcome("msg")


def send_set(st, n, c, t, payload, buffering=True):
    """C07: a set command sent with buffering allowed to a node known to be sleeping is parked
    (last writer wins per key); otherwise it is written immediately and unchanged."""
    node = aget(st.nodes, n)
    if buffering and node is not None and node.sleeping:
        aset(st.parked, (n, c, t), payload)
        return []
    return [line(n, c, 1, 0, t, payload)]
