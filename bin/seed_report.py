#!/usr/bin/env python3
"""seeded/README.md from seeded/*/meta.json and seeded/RESULTS.tsv (written by bin/eval_seeds.sh)."""
import json
import os

VERIF = os.path.dirname(os.path.dirname(os.path.abspath(__file__)))
S = os.path.join(VERIF, "seeded")
res = {}
p = os.path.join(S, "RESULTS.tsv")
if os.path.exists(p):
    for line in open(p):
        f = line.rstrip("\n").split("\t")
        if len(f) >= 6:
            res.setdefault(f[0], []).append(f[1:])
out = ["# Seeded breaking changes and which checks catch them", "",
       "Each directory holds `patch.diff` (applies to /repo HEAD), `demo.py` (exits 1 with the change, 0 without; run with",
       "`PYTHONPATH=<tree>/src /venv/bin/python demo.py`) and `meta.json`. All changes keep the 273 existing tests green.",
       "They were written by independent sub-agents that saw only the property text and a scratch worktree.",
       "Results below come from `bin/eval_seeds.sh` (each change applied to a scratch worktree, the check run against it with",
       "`VERIF_REPO`; rc=1 = VIOLATION reported and replayed, rc=0 = missed, rc=2 = inconclusive).", "",
       "| seeded change | breaks | what it is | needs | check | tier | result | wall | first failing key |", "|---|---|---|---|---|---|---|---|---|"]
for d in sorted(os.listdir(S)):
    mp = os.path.join(S, d, "meta.json")
    if not os.path.exists(mp):
        continue
    m = json.load(open(mp))
    rows = res.get(d) or [["-", "-", "not evaluated yet", "-", "-"]]
    for r in rows:
        out.append("| %s | %s | %s | %s | %s | %s | %s | %s | `%s` |" % (d, m["breaks_property"], m["change"].replace("|", "/"), m["needs_to_manifest"].replace("|", "/"),
                                                                 r[0], r[1], {"rc=1": "caught", "rc=0": "MISSED", "rc=2": "inconclusive"}.get(r[2], r[2]), r[3], r[4] if len(r) > 4 else ""))
    if m.get("note"):
        out.append("| | | note: %s | | | | | | |" % m["note"].replace("|", "/"))
open(os.path.join(S, "README.md"), "w").write("\n".join(out) + "\n")
print("wrote seeded/README.md with", len(out) - 10, "rows")
