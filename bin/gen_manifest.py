#!/usr/bin/env python3
"""Regenerate MANIFEST.json from the table below (run after adding a harness)."""
import json
import os

VERIF = os.path.dirname(os.path.dirname(os.path.abspath(__file__)))
TECH = "bounded symbolic execution of the real Python code (CrossHair path exploration driven by sx/engine.py), every branch decided by z3; path tree exhausted within stated bounds; counterexamples replayed concretely"
TRUST = "CrossHair 0.0.110 models of Python builtins + z3 (mitigated by a concrete twin run of every path's model and a stand-alone replay of every counterexample); the stubs and bounds listed in the evidence file; marshmallow/awesomeversion/asyncio are executed, not verified"

CLAIMED = {
    # id: (design_ref, text)
    "C01": ("4/C01", "All paths of MessageSchema.dump/load (and Gateway.send -> Gateway.listen) over symbolic node/child/ack/type and symbolic payload strings up to the stated length are explored to exhaustion; on each path z3 decides the round-trip, exact-format and re-encode assertions for all values following the path. Bounded model checking: nothing is claimed beyond the payload length / type window."),
}
CLAIMED["C02"] = ("4/C02", "The real MessageSchema.load is executed on lines built from symbolic integers rendered to text (in-range core per command; single-fault scheme with out-of-range integers or non-numeric class texts at each numeric position; field counts 0..8; three terminators) and z3 decides on every path that accept <=> the predicate spelled in the property, that accepted lines decode to the spelled values and that rejections are ValidationError (InvalidMessageError through Gateway.listen) and nothing else. Path tree exhausted within the bounds; bounded model checking.")
CLAIMED["C04"] = ("4/C04", "One symbolic step of the real Gateway.listen / incoming handlers from every built pre-state (symbolic registry shape, symbolic node/child/type ids, symbolic payload) is compared with a reference model written from the property statement: outcome (yielded fields or error class naming the missing id), and the complete registry after the step; plus 2-3 line histories through one listen() generator for exactly-once, in-order yields. One step from an arbitrary built state is the inductive step for histories of any length within the shape bound. Path tree exhausted; bounded model checking.")
CLAIMED["C06"] = ("4/C06", "One symbolic step of the real receive path from every built pre-state (registry shape, reboot/sleeping flags, metric flag, stored value present/absent, version known or unknown) for every command and the listed internal types is compared with the write list of a reference model written from the statement (id response, M/I, local time via an independent days-from-civil formula over a symbolic clock stub, stored value, discover broadcast, reboot, version query rule), including that nothing is parked in either buffer. Path tree exhausted; bounded model checking.")
CLAIMED["C10"] = ("4/C10", "Inductive step from symbolic pre-states (node unknown / known / known with child; outstanding-request markers for two nodes symbolic) with one event of 13 kinds (incl. version reports from the gateway node) and a symbolic write-fault bit (subclass or base transport error), plus 2-3 event episode histories; writes, outcome, registry and the set of outstanding requests are compared with a model written from the statement for all five versions. Path tree exhausted; bounded model checking.")
CLAIMED["C11"] = ("4/C11", "The real id-request handler is run on registries of 0..3(4) nodes whose ids are symbolic in [0,255] (so every subset shape of that size is covered by the solver) with symbolic request addressing; z3 decides freshness, range, registration-before-write, response addressing, the too-many-nodes clause, and distinctness over two requests. Path tree exhausted; bounded model checking.")
CLAIMED["C05"] = ("4/C05", "(a1) the real get_protocol body is executed with symbolic major/minor in [0,10^6] (version parser replaced by a contract stub that is itself checked against the real AwesomeVersion on the grid) and z3 decides that the selected protocol is the newest one <= major.minor; (a2) the real parser end to end on a realised grid of 750 version texts (enumeration, stated as such); (b) histories of accepted and rejected version reports: reported version, active protocol, schema context and the type gate actually in force agree after every step; (c) internal/stream type gate per version with the type symbolic in [-2,99999] against table sizes hard-coded from the MySensors serial API. Path trees exhausted; bounded model checking.")
CLAIMED["C03"] = ("4/C03", "The real Gateway.listen, all incoming handlers of the five protocol modules and StreamTransport.read are executed on (i) malformed lines (field counts, class texts, out-of-range integers), (ii) well-formed lines with symbolic ids, symbolic type numbers in [-2,99999] and a payload class list through the real float()/int()/version parser, from states with version known/unknown, node/child known/unknown, sleeping or not, (iv) byte strings over UTF-8 class alphabets through StreamTransport.read and the real StreamReader, and (v) a gateway on a real stream transport echoing a stored value; on every path the outcome must be a message or a subclass of AIOMySensorsError, and after an error the same gateway must handle the next well-formed line. Path trees exhausted (the thorough raw-line hunt is non-deciding and reported as such); bounded model checking.")
CLAIMED["C07"] = ("4/C07", "Inductive step of the real Gateway.send / outgoing set handler / wake handlers from 64 symbolic pre-states (sleeping flags, parked commands present or absent for four (node, child, type) keys over two nodes with symbolic ids) with one event of 24 kinds (sends, wakes, non-wakes, version reply), compared after the step with a last-writer-wins model (writes as multiset, registry, complete buffer contents), for all five versions, plus 2-3 event histories and protocol-switch histories (parked while the version is unknown, version report, wake). Because the complete state is compared after every step, one step from an arbitrary state covers histories of any length within the shape bound. Path tree exhausted; bounded model checking.")
CLAIMED["C08"] = ("4/C08", "The real flush loop runs over a transport stub whose every write attempt has its own symbolic fault bit (so the solver covers all subsets and positions of failing writes), across 2-3 wakes of two nodes with up to four parked commands; after every wake each command must be parked xor written exactly once, a faulted wake must raise a transport error out of listen, and fault-free wakes must release the rest. Path tree exhausted; bounded model checking.")
CLAIMED["C09"] = ("4/C09", "The real listener (flush) and 1-3 real send coroutines run under a cooperative scheduler in which the task resumed at each transport-write suspension point is a symbolic input; the path tree therefore enumerates every feasible interleaving (asyncio has no other preemption points). At quiescence z3-decided assertions check last-sent == last-written per key, no unsent value written, no value written twice. Path tree exhausted; bounded model checking over schedules.")
CLAIMED["C12"] = ("4/C12", "The real Gateway.send and outgoing handlers are executed for every command with symbolic node/child/ack/type/payload, symbolic buffering flag and destination unknown/awake/sleeping; each path must end in exactly one of: the exact encoded line written, held and written at the destination's next wake (the wake is then fed to listen), or a library error; non-message objects must be rejected as InvalidMessageError. Path tree exhausted; bounded model checking.")
CLAIMED["C13"] = ("4/C13", "Registries reached through symbolic histories of received lines on a real gateway, and directly constructed registries with symbolic field values (types in [-2^40,2^40], battery in [0,100], symbolic strings), are saved by the real Persistence.save and loaded by the real Persistence.load into an empty registry over an in-memory file system; values stay symbolic through a structure-preserving json fake, so schema-level accept/reject (e.g. the battery range) is decided by z3 for all values; every path's witness is re-run through the real json on real JSON text; legacy layout == native layout; awkward strings through the real json. Path tree exhausted; bounded model checking.")
CLAIMED["C14"] = ("4/C14", "The real Persistence.load runs on documents in which one JSON value at each of 21 nesting positions (native and legacy layout) is replaced by null / true / a symbolic integer / a symbolic or class-list string / [] / {} / [1] / {'a':1}, a field is dropped or an unknown field added, on every prefix of three valid files (cut position symbolic), on undecodable bytes, missing file, empty file and injected OSError; every path must end in success or PersistenceReadError; missing file => created with the current registry; empty => empty registry. Path tree exhausted; bounded model checking.")
CLAIMED["C15"] = ("4/C15", "The real Persistence.save runs on an in-memory file system with crash semantics; the crash index over the operations save actually issues and the surviving prefix length of unflushed data are symbolic; the real Persistence.load then runs on every post-crash disk and must yield the old or the new registry, for all 16 ordered pairs of a 4-registry family. Path tree exhausted. The pinned tree violates the property at one call site (truncate in place): recorded as three known findings keyed by crash position and outcome; any other post-crash outcome is still a violation.")
CLAIMED["C16"] = ("4/C16", "The real Gateway.__aenter__/__aexit__, Persistence.start/stop/save_on_schedule and the built-in transports' connect/disconnect run on a real asyncio event loop in virtual time over an in-memory file system whose every operation is a suspension point; the exit moment (0..12 loop turns), body-raises, connect-fault (error or cancellation) and disconnect-fault bits, the transport kind, suspending or non-suspending connect, and the speed of every file handle are inputs explored exhaustively; assertions: only the body/library exception propagates (never CancelledError), transport down, file == registry at exit, no task left, (checked the moment the context ends), and >= 1 + floor(D/900) saves after D virtual seconds in a first or second session of the same gateway.")
CLAIMED["C17"] = ("4/C17", "The real StreamTransport/TCPTransport/SerialTransport run over a real asyncio.StreamReader on a real event loop with a feeder task: every byte stream over an 8-byte alphabet up to length 3(4), every cut into 2(3) chunks, with and without EOF, is compared with the reference (lines of the stream in order, decoded; errors as TransportReadError); writes with fault bits on write/drain/close; connect fault; use before connect. The grid is enumerated by the solver (realised dimension, stated as such).")
CLAIMED["C18"] = ("4/C18", "The real topic<->line mapping, subscription list and read queue are executed with symbolic node/child/ack/type and symbolic payload strings (';' and '/' included) for class-list prefixes: z3 decides the published topic/QoS/payload, subscription coverage under MQTT wildcard semantics, and that the echo under the in-prefix decodes (through the real MessageSchema) to the same message; the real MQTTClient runs on a real event loop against a fake broker client for all histories of <= 3 events in {message, undecodable payload, broker error}, with publish/subscribe/connect faults and connect->disconnect at every moment. Path trees exhausted; bounded model checking.")
CLAIMED["C19"] = ("4/C19", "Two real gateways under an older and a newer protocol version are built into the same symbolic pre-state and fed the same symbolic event (received line of any command with the type ranging over the older version's table, or a send call); outcome, error attributes, writes, registry and both buffers must be equal, with exactly the stated exemptions. Implementation against implementation, one inductive step from equal states; adjacent version pairs in the quick tier, 3 far pairs and wider id windows in the thorough tier. Path trees exhausted; bounded model checking.")
PENDING = {
}


def main():
    props = [json.loads(l) for l in open(os.path.join(VERIF, "properties.jsonl"))]
    checks = []
    na = []
    for p in props:
        pid = p["id"]
        if pid in CLAIMED:
            ref, text = CLAIMED[pid]
            checks.append({
                "property_id": pid,
                "quick_cmd": "bin/verif check %s --tier quick" % pid,
                "thorough_cmd": "bin/verif check %s --tier thorough" % pid,
                "evidence_file": "/verif/evidence/%s.json" % pid,
                "replay_cmd_template": "bin/verif replay {path}",
                "engine": "sx",
                "level_claimed": {"category": "model_checking", "text": text, "design_ref": "DESIGN.md section " + ref},
                "level_note": TRUST,
                "technique": TECH,
            })
        else:
            na.append({"property_id": pid, "reason": PENDING.get(pid, "harness not built yet in this round (work in progress); the technique is expected to apply, see DESIGN.md section 4")})
    m = {
        "version": 1,
        "setup_cmd": "bin/setup.sh",
        "hooks": {
            "guard": "AIOMYSENSORS_VERIF",
            "enable": "no hooks in /repo are needed: stubs are attribute assignments on imported modules inside the harness process; checks import /repo/src directly (editable install in /venv)",
            "baseline_off_cmd": "cd /repo && /venv/bin/python -m pytest -q -p no:cacheprovider --timeout=900",
            "source_commits": [],
            "add_only": True,
        },
        "engines": [{
            "name": "sx",
            "path": "/verif/sx",
            "serves_properties": sorted(CLAIMED),
            "kind_free_text": "own driver over CrossHair 0.0.110 internals (StateSpace/RootNode path tree) + z3 5.1: exhaustive bounded symbolic execution of /repo/src with symbolic inputs, schedules, fault masks and crash points; concrete twin per path; stand-alone replay",
        }],
        "checks": checks,
        "not_applicable": na,
        "notes": "Exit 0 = held on everything explored; 1 = VIOLATION (replayed); 2 = inconclusive (budget/unknown/divergence) - never reported as success. Known findings: known_findings.json. Fix commits in /repo are listed there as 'fixed:'.",
    }
    with open(os.path.join(VERIF, "MANIFEST.json"), "w") as f:
        json.dump(m, f, indent=1)
    print("claimed:", sorted(CLAIMED), "not_applicable:", [x["property_id"] for x in na])


if __name__ == "__main__":
    main()
