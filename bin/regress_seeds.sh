#!/bin/bash
# Regression suite for the CHECKS: re-run, for every seeded change, the (check, partition) recorded in
# seeded/RESULTS.tsv as catching it, and report any that no longer exits 1.
# usage: bin/regress_seeds.sh [seed-id-prefix]      e.g. bin/regress_seeds.sh C16
cd "$(dirname "$0")/.."
PFX="${1:-C}"
fail=0
while IFS=$'\t' read -r seed chk tier rc wall key; do
  case "$seed" in $PFX*) ;; *) continue ;; esac
  [ "$rc" = "rc=1" ] || continue
  only=""
  case "$tier" in *"partition "*) only="--only $(echo "$tier" | sed 's/.*partition \([^)]*\)).*/\1/')" ;; esac
  out=$(bin/try_mutant.sh "$PWD/seeded/$seed/patch.diff" "$chk" $only 2>&1 | grep "try_mutant:")
  if echo "$out" | grep -q "rc=1"; then echo "ok   $seed $chk $only"; else echo "LOST $seed $chk $only ($out)"; fail=1; fi
done < seeded/RESULTS.tsv
exit $fail
