#!/bin/bash
# Evaluate every seeded change against the check of the property it breaks (and optional extra checks):
# usage: bin/eval_seeds.sh [tier] [seed-dir ...]   -> /verif/seeded/RESULTS.tsv
cd "$(dirname "$0")/.."
TIER="${1:-quick}"; shift
DIRS="${@:-$(ls -d seeded/C*-* | sort)}"
for d in $DIRS; do
  id=$(python3 -c "import json;print(json.load(open('$d/meta.json'))['breaks_property'])")
  extra=$(python3 -c "import json;print(' '.join(json.load(open('$d/meta.json')).get('also_try',[])))")
  for chk in $id $extra; do
    s=$(date +%s)
    out=$(bin/try_mutant.sh $d/patch.diff $chk --tier $TIER 2>&1 | grep -v "WARNING conda")
    e=$(date +%s)
    rc=$(echo "$out" | grep "try_mutant:" | sed 's/.*rc=//')
    key=$(echo "$out" | grep -m1 "key=" | sed 's/.*key=\([^ ]*\).*/\1/')
    printf "%s\t%s\t%s\trc=%s\t%ss\t%s\n" "$(basename $d)" "$chk" "$TIER" "$rc" "$((e-s))" "$key"
  done
done
