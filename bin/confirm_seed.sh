#!/bin/bash
# usage: bin/confirm_seed.sh <Cxx> <k> <dir-with-mutantK.diff-and-demoK.py>
# Confirms in a fresh scratch worktree: patch applies, test suite passes with it, demo exits 1 with it and 0 without.
set -u
ID="$1"; K="$2"; SRC="$3"; OUTK="${4:-$2}"
WT="$(mktemp -d /tmp/seedwt.XXXXXX)"; rmdir "$WT"
git -C /repo worktree add -q "$WT" HEAD || exit 2
cp "$SRC/demo$K.py" "$WT/demo.py"
cd "$WT"
export PYTHONPATH="$WT/src"
/venv/bin/python demo.py >/tmp/seed_clean.out 2>&1; clean=$?
git apply "$SRC/mutant$K.diff" || { echo "APPLY-FAILED"; cd /; git -C /repo worktree remove --force "$WT"; exit 2; }
tests=$(/venv/bin/python -m pytest -q -p no:cacheprovider -x 2>&1 | tail -1)
/venv/bin/python demo.py >/tmp/seed_mut.out 2>&1; mut=$?
cd /; git -C /repo worktree remove --force "$WT"
echo "$ID-$OUTK clean_demo_rc=$clean mutant_demo_rc=$mut tests: $tests"
if [ "$clean" = "0" ] && [ "$mut" = "1" ] && echo "$tests" | grep -q "273 passed"; then
  D="/verif/seeded/$ID-$OUTK"; mkdir -p "$D"
  cp "$SRC/mutant$K.diff" "$D/patch.diff"; cp "$SRC/demo$K.py" "$D/demo.py"
  tail -5 /tmp/seed_mut.out | cut -c1-300 > "$D/demo_output_with_change.txt"
  echo CONFIRMED
else
  echo NOT-CONFIRMED; tail -3 /tmp/seed_mut.out
fi
