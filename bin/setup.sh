#!/bin/bash
# Build /verif/.venv: an overlay on /venv (python 3.12 + repo deps) with crosshair-tool
# from the offline wheelhouse. Idempotent; serialised with flock.
set -e
VERIF="$(cd "$(dirname "$0")/.." && pwd)"
exec 9>"/tmp/.verif-setup.lock"
flock 9
VENV="$VERIF/.venv"
if [ -x "$VENV/bin/python" ] && "$VENV/bin/python" -c "import crosshair, z3, marshmallow, awesomeversion" 2>/dev/null; then
  exit 0
fi
rm -rf "$VENV"
/venv/bin/python -m venv "$VENV"
SP="$("$VENV/bin/python" -c 'import sysconfig; print(sysconfig.get_paths()["purelib"])')"
printf "import site; site.addsitedir('/venv/lib/python3.12/site-packages')\n" > "$SP/verif_overlay.pth"
PIP_NO_INDEX=1 "$VENV/bin/pip" install -q --no-index --find-links /opt/veriftools/wheels crosshair-tool >/dev/null
"$VENV/bin/python" -c "import crosshair, z3, marshmallow, awesomeversion; print('verif venv ready')"
