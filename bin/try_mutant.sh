#!/bin/bash
# usage: bin/try_mutant.sh <patch.diff> <Cxx> [extra args for bin/verif check]
# Applies the patch to a scratch worktree of /repo (never to /repo), runs the check against it, removes the worktree.
set -u
PATCH="$(readlink -f "$1")"; ID="$2"; shift 2
WT="$(mktemp -d /tmp/mutwt.XXXXXX)"; rmdir "$WT"
git -C /repo worktree add -q "$WT" HEAD || exit 2
if ! git -C "$WT" apply "$PATCH"; then echo "patch does not apply"; git -C /repo worktree remove --force "$WT"; exit 2; fi
VERIF_REPO="$WT" VERIF_EVIDENCE_DIR="/tmp/verif_evidence_scratch" VERIF_REPLAY_DIR="/tmp/verif_replays_scratch" "$(dirname "$0")/verif" check "$ID" "$@"
rc=$?
git -C /repo worktree remove --force "$WT"
echo "try_mutant: $ID rc=$rc"
exit $rc
