#!/bin/bash
# Run every registered check (default tier quick) sequentially; summary in /tmp/verif_run_all.log
TIER="${1:-quick}"; shift
cd "$(dirname "$0")/.."
IDS="${@:-C01 C02 C03 C04 C05 C06 C07 C08 C09 C10 C11 C12 C13 C14 C15 C16 C17 C18 C19}"
for id in $IDS; do
  s=$(date +%s)
  out=$(bin/verif check $id --tier $TIER 2>&1 | grep -v "WARNING conda")
  rc=$?
  e=$(date +%s)
  echo "== $id rc=${PIPESTATUS[0]} wall=$((e-s))s"
  echo "$out" | tail -6 | cut -c1-600
done
